"""Drivers and projection for specs/Importers.tla (property C20).

The only place that knows rsatoolbox.io.  Two directions:

* ``replay_line``  spec -> impl: one JSON test vector emitted by TLC (section bids / meadows / mne / dm /
  spm) is turned into real strings, directory trees and files, the public importer is called and the
  projected result compared with the expectation TLC computed.
* ``record_trace`` impl -> spec: random inputs beyond the model's bounds are fed to the importers, the
  input and the projected output are logged as events for specs/Trace_Importers.tla.

Text <-> atoms.  The specification works on sequences of integer atoms (word ids > 0, separators
/ _ - . as -1..-4).  ``to_str`` concatenates, ``Lexer.lex`` splits a string returned by the library
at the four separator characters and maps every run to its word id.  Nothing else about the BIDS or
Meadows grammars lives here.

Every driver returns a list of findings ``(kind, key, what, case)`` with kind 'viol' or 'unsup'.
"""
from __future__ import annotations

import json
import os
import re
import shutil
import warnings
from unittest.mock import Mock

import numpy as np

SEP = {-1: '/', -2: '_', -3: '-', -4: '.'}
SEPR = {v: k for k, v in SEP.items()}
KEYWORDS = {1: 'derivatives', 2: 'sub', 3: 'ses', 4: 'task', 5: 'run', 6: 'space', 7: 'desc',
            8: 'json', 9: 'tsv', 10: 'events', 11: 'mat', 12: 'Meadows', 13: 'v', 14: 'epo', 15: 'fif'}
# words of the model-checking configuration (MC_Importers.tla)
WORDS = dict(KEYWORDS)
WORDS.update({21: '01', 22: 'ab2', 23: '1', 24: 'post', 25: 'rest', 27: '02', 28: '1',
              29: 'MNI152NLin2009cAsym', 30: 'T1w', 31: 'preproc', 33: 'bold', 34: 'mask',
              35: 'fmriprep', 36: 'ana', 37: 'func', 38: 'anat', 39: 'nii', 40: 'gz',
              41: 'confounds', 42: 'brain', 43: 'timeseries', 44: 'dseg', 45: 'aparcaseg',
              46: 'pre', 47: '10', 48: 'fsaverage',
              303: '3', 312: '12', 401: 'ox', 402: 'aardvark', 501: 'cuddly', 502: 'able',
              601: 'arrangement', 602: 'ma1', 701: 'myExp', 801: 'v1', 812: 'v12', 901: '1D', 902: 'tree'})
ENTS = ['sub', 'ses', 'task', 'run', 'space', 'desc', 'suffix', 'ext', 'derivative', 'modality']
REQUIRED = ['sub', 'suffix', 'ext', 'modality']
NUMBASE, PETBASE = 300, 400
TOL = 1e-9


def to_str(atoms, words):
    return ''.join(SEP[a] if a < 0 else words[a] for a in atoms)


class Lexer:
    """string -> atoms with a per-trace word table (text -> id)."""

    def __init__(self, petnames=None):
        self.t2i = {v: k for k, v in KEYWORDS.items()}
        self.i2t = dict(KEYWORDS)
        self.pet = {p: PETBASE + i for i, p in enumerate(petnames or [])}
        self.next = 1000

    def word(self, text, classes=True):
        if text in self.t2i:
            return self.t2i[text]
        if classes and text.isdigit() and str(int(text)) == text and int(text) < 100:
            i = NUMBASE + int(text)
        elif classes and text in self.pet:
            i = self.pet[text]
        else:
            i = self.next
            self.next += 1
        self.t2i[text] = i
        self.i2t[i] = text
        return i

    def lex(self, s, known_only=True):
        out = []
        for run in re.split(r'([/_.\-])', s):
            if run == '':
                continue
            if run in SEPR:
                out.append(SEPR[run])
            elif run in self.t2i:
                out.append(self.t2i[run])
            else:
                out.append(9999 if known_only else self.word(run))
        return out


def _exc(e):
    return type(e).__name__


# ================================================================== (a, b) BIDS
def _ent_str(e, ent, words):
    v = e[ent]
    if ent == 'ext':
        return '.'.join(words[w] for w in v) if v else None
    return words[v] if v else None


def _attrs(bf):
    return {k: getattr(bf, k, None) for k in ENTS}


def _norm_ext(d):
    # the library reports an absent extension as ''
    d = dict(d)
    if d.get('ext') == '':
        d['ext'] = None
    return d


def _call_lookup(layout, bf, kind, d, s):
    if kind == 'meta':
        return layout.find_meta_for(bf)
    if kind == 'events':
        return layout.find_events_for(bf)
    if kind == 'tsib':
        return layout.find_table_sibling_of(bf, desc=d, suffix=s)
    if kind == 'msib':
        return layout.find_mri_sibling_of(bf, desc=d, suffix=s)
    if kind == 'key':
        return layout.find_table_key_for(bf)
    raise ValueError(kind)


def _write(path, text):
    os.makedirs(os.path.dirname(path), exist_ok=True)
    with open(path, 'w') as f:
        f.write(text)


def replay_bids(rec, root, idx, do_fs, words=WORDS):
    from rsatoolbox.io.bids import BidsLayout, BidsMriFile
    from rsatoolbox.io.mne import descriptors_from_bids_filename
    out = []
    e = rec['e']
    p = to_str(rec['path'], words).replace('/', os.sep)
    case = {'path': p, 'entities': {k: _ent_str(e, k, words) for k in ENTS}}
    n = 0
    # file-name entities of the MNE reader (name only, any combination)
    fname = to_str(rec['fname'], words)
    try:
        nd = descriptors_from_bids_filename(fname)
        want = {k: words[v] for k, v in rec['nd'].items() if v}
        n += 1
        if nd != want and not e['suffix']:
            # without a suffix the last key-value segment runs into the extension: not a BIDS name
            out.append(('unsup', 'bids-filename/outside-contract/absent=suffix', f'e.g. {fname!r} -> {nd!r}', None))
        elif nd != want:
            out.append(('viol', 'C20/d/bids-filename', 'descriptors_from_bids_filename differs from the '
                        'sub/run/task entities of the name', {**case, 'fname': fname, 'got': nd, 'want': want}))
    except Exception as ex:  # total on names
        out.append(('viol', f'C20/d/bids-filename/raises/{_exc(ex)}', str(ex), {**case, 'fname': fname}))
    layout = BidsLayout(root, nibabel=Mock())
    if not rec['valid']:
        miss = '+'.join(k for k in REQUIRED if not e[k])
        cls = f'bids/outside-contract/absent={miss}'
        try:
            bf = BidsMriFile(p, layout, None)
            got = _norm_ext(_attrs(bf))
            same = layout._replace(bf, {})
            ok = got == case['entities'] and same == p
        except Exception as ex:
            ok = False
            same = _exc(ex)
        n += 1
        if not ok:
            out.append(('unsup', cls, f'e.g. {p!r} -> {same!r}', None))
        return n, out, False
    # ---- clause a: parse and re-format
    try:
        bf = BidsMriFile(p, layout, None)
        got = _attrs(bf)
    except Exception as ex:
        out.append(('viol', f'C20/a/parse/raises/{_exc(ex)}', f'BidsFile({p!r}) raises {ex}', case))
        return n + 1, out, True
    n += 1
    bad = [k for k in ENTS if got[k] != case['entities'][k]]
    if bad:
        out.append(('viol', 'C20/a/parse/' + '+'.join(bad), 'entities parsed from a relative path differ from '
                    'the entities it encodes', {**case, 'got': got}))
    try:
        same = layout._replace(bf, {})
        n += 1
        if same != p:
            out.append(('viol', 'C20/a/format', 'path rebuilt from the parsed entities differs from the '
                        'original path', {**case, 'got': same}))
    except Exception as ex:
        out.append(('viol', f'C20/a/format/raises/{_exc(ex)}', str(ex), case))
    # ---- clause b: look-ups
    for lk in rec['looks']:
        kind = lk['kind']
        d = words[lk['d']] if lk['d'] else None
        s = words[lk['s']] if lk['s'] else None
        wantp = to_str(lk['path'], words).replace('/', os.sep)
        wante = {k: _ent_str(lk['ent'], k, words) for k in ENTS}
        c2 = {**case, 'lookup': kind, 'desc': d, 'suffix': s, 'want': wantp}
        try:
            r = _call_lookup(layout, bf, kind, d, s)
            gote = _norm_ext(_attrs(r))
            gotp = r.relpath
        except Exception as ex:
            out.append(('viol', f'C20/b/{kind}/raises/{_exc(ex)}', str(ex), c2))
            continue
        n += 1
        if gotp != wantp or gote != wante:
            diff = [k for k in ENTS if gote[k] != wante[k]]
            out.append(('viol', f'C20/b/{kind}/' + ('+'.join(diff) if diff else 'path'),
                        f'{kind} look-up: result differs from the base file in entities it was not asked '
                        f'to change, or not in those it was', {**c2, 'got': gotp, 'got_entities': gote}))
    # ---- the same look-ups through the file system (real files at the expected places)
    if do_fs:
        base = os.path.join(root, f't{idx}')
        lay2 = BidsLayout(base, nibabel=Mock())
        exp = {}
        for lk in rec['looks']:
            kind = lk['kind']
            wantp = to_str(lk['path'], words).replace('/', os.sep)
            if kind == 'meta':
                _write(os.path.join(base, wantp), json.dumps({'who': wantp}))
            elif kind in ('events', 'tsib', 'key'):
                _write(os.path.join(base, wantp), 'onset\tduration\ttrial_type\twho\n0\t1\ta\t' + wantp + '\n')
            exp.setdefault(kind, []).append((lk, wantp))
        bf2 = BidsMriFile(p, lay2, None)
        for kind, lst in exp.items():
            for lk, wantp in lst:
                d = words[lk['d']] if lk['d'] else None
                s = words[lk['s']] if lk['s'] else None
                try:
                    if kind == 'meta':
                        who = bf2.get_meta()['who']
                    elif kind == 'events':
                        who = bf2.get_events()['who'][0]
                    elif kind == 'tsib':
                        who = bf2.get_table_sibling(desc=d, suffix=s).get_frame()['who'][0]
                    elif kind == 'key':
                        who = bf2.get_key().get_frame()['who'][0]
                    else:
                        continue
                    n += 1
                    if who != wantp:
                        out.append(('viol', f'C20/b/{kind}/file', 'look-up opened another file than the one '
                                    'the entities name', {**case, 'want': wantp, 'got': who}))
                except Exception as ex:
                    out.append(('viol', f'C20/b/{kind}/file', f'look-up does not find the file at the place '
                                f'the entities name: {_exc(ex)}', {**case, 'want': wantp, 'error': str(ex)[:200]}))
        shutil.rmtree(base, ignore_errors=True)
    return n, out, True


def replay_layout(rec, root, idx, do_fs, words=WORDS):
    """a history of look-ups on ONE BidsLayout (and one file object per family member)"""
    from rsatoolbox.io.bids import BidsLayout, BidsMriFile
    out = []
    base = os.path.join(root, f'l{idx}')
    layout = BidsLayout(base, nibabel=Mock())
    paths = [to_str(p, words).replace('/', os.sep) for p in rec['paths']]
    files = [BidsMriFile(p, layout, None) for p in paths]
    if do_fs:      # every family member has its own sidecar / events / table files
        for e, p in zip(rec['files'], paths):
            stem = p[:-len('.' + _ent_str(e, 'ext', words))]
            _write(os.path.join(base, stem + '.json'), json.dumps({'who': stem + '.json'}))
    n = 0
    hist = []
    try:
        for k, st in enumerate(rec['hist']):
            kind = st['kind']
            d = words[st['d']] if st['d'] else None
            s = words[st['s']] if st['s'] else None
            wantp = to_str(st['path'], words).replace('/', os.sep)
            hist.append({'file': paths[st['f'] - 1], 'lookup': kind, 'desc': d, 'suffix': s, 'want': wantp})
            case = {'history_on_one_layout': list(hist), 'step': k + 1}
            try:
                r = _call_lookup(layout, files[st['f'] - 1], kind, d, s)
                gotp = r.relpath
                who = files[st['f'] - 1].get_meta()['who'] if (do_fs and kind == 'meta') else None
            except Exception as ex:
                out.append(('viol', f'C20/b/{kind}/history/raises/{_exc(ex)}', str(ex), case))
                break
            n += 1
            hist[-1]['got'] = gotp
            if gotp != wantp:
                wante = {e: _ent_str(st['ent'], e, words) for e in ENTS}
                gote = _norm_ext(_attrs(r))
                diff = [e for e in ENTS if gote[e] != wante[e]]
                out.append(('viol', f'C20/b/{kind}/history/' + ('+'.join(diff) if diff else 'path'),
                            f'step {k + 1} of a look-up history on one layout object: the answer is not the '
                            f'look-up of that step\'s base file (entities the look-up does not name differ from '
                            f'it; at steps > 1 the answer depends on what was looked up before)',
                            case))
                break
            if who is not None and who != wantp:
                out.append(('viol', f'C20/b/{kind}/history/file', f'step {k + 1}: get_meta() read the sidecar of '
                            f'another file', {**case, 'read': who}))
                break
    finally:
        if do_fs:
            shutil.rmtree(base, ignore_errors=True)
    return n, out, True


_ALNUM = 'abcdefghijklmnopqrstuvwxyzABCDEFGHIJKLMNOPQRSTUVWXYZ0123456789'
_ADVERSARIAL = ['sub', 'ses', 'task', 'run', 'space', 'desc', 'derivatives', 'json', 'tsv', 'events', '0', '00',
                'Sub', 'subses', 'x']


def _rand_word(rng, adversarial=True):
    if adversarial and rng.random() < 0.2:
        return _ADVERSARIAL[rng.integers(len(_ADVERSARIAL))]
    return ''.join(_ALNUM[i] for i in rng.integers(0, len(_ALNUM), size=int(rng.integers(1, 13))))


def record_bids(rng, lx):
    """random valid entity record -> implementation's own format, parse, look-ups; all lexed."""
    from rsatoolbox.io.bids import BidsLayout, BidsMriFile
    layout = BidsLayout('/nowhere', nibabel=Mock())
    ent = {}
    for k in ENTS:
        if k in REQUIRED or rng.random() < 0.6:
            if k == 'ext':
                ent[k] = [_rand_word(rng, False) for _ in range(int(rng.integers(1, 4)))]
            else:
                ent[k] = _rand_word(rng)
        else:
            ent[k] = [] if k == 'ext' else None
    e = {k: ([lx.word(w, False) for w in v] if k == 'ext' else (lx.word(v, False) if v else 0))
         for k, v in ent.items()}
    strs = {k: ('.'.join(v) if k == 'ext' else v) for k, v in ent.items()}
    p = layout._replace(Mock(), dict(strs))                 # implementation's Format on all ten entities
    bf = BidsMriFile(p, layout, None)                       # implementation's Parse
    a = _attrs(bf)

    def ids(x):
        return {k: ([lx.t2i.get(w, 9999) for w in (x[k] or '').split('.') if w] if k == 'ext'
                    else (lx.t2i.get(x[k], 9999) if x[k] else 0)) for k in ENTS}
    from rsatoolbox.io.mne import descriptors_from_bids_filename
    nd = descriptors_from_bids_filename(os.path.basename(p))
    ev = {'k': 'bids', 'e': e, 'path': lx.lex(p.replace(os.sep, '/')), 'attrs': ids(a),
          'same': lx.lex(layout._replace(bf, {}).replace(os.sep, '/')),
          'nd': {k: lx.t2i.get(nd[k], 9999) if k in nd else 0 for k in ('sub', 'run', 'task')},
          'looks': [], 'text': p}
    dw, sw = _rand_word(rng), _rand_word(rng)
    d, s = lx.word(dw, False), lx.word(sw, False)
    for kind in ['meta', 'events', 'tsib', 'msib'] + (['key'] if ent['desc'] else []):
        r = _call_lookup(layout, bf, kind, dw, sw)
        sib = kind in ('tsib', 'msib')
        ev['looks'].append({'kind': kind, 'd': d if sib else 0, 's': s if sib else 0,
                            'path': lx.lex(r.relpath.replace(os.sep, '/'))})
    return ev


def record_layout(rng):
    """a random look-up sequence on ONE layout over a family of files differing in one entity each"""
    from rsatoolbox.io.bids import BidsLayout, BidsMriFile
    lx = Lexer()
    layout = BidsLayout('/nowhere', nibabel=Mock())
    base = {k: (_rand_word(rng) if (k in REQUIRED or rng.random() < 0.8) else None) for k in ENTS}
    base['ext'] = [_rand_word(rng, False) for _ in range(int(rng.integers(1, 3)))]
    fam = [dict(base)]
    for k in ENTS:
        v = dict(base)
        v[k] = [_rand_word(rng, False)] if k == 'ext' else _rand_word(rng, False)
        fam.append(v)
        if k not in REQUIRED and base[k]:
            v = dict(base)
            v[k] = None
            fam.append(v)
    fam = [fam[0]] + [fam[int(j)] for j in rng.permutation(np.arange(1, len(fam)))[:6]]
    files, paths, objs = [], [], []
    for ent in fam:
        strs = {k: ('.'.join(v) if k == 'ext' else v) for k, v in ent.items()}
        p = layout._replace(Mock(), dict(strs))
        objs.append(BidsMriFile(p, layout, None))
        files.append({k: ([lx.word(w, False) for w in v] if k == 'ext' else (lx.word(v, False) if v else 0))
                      for k, v in ent.items()})
        paths.append(lx.lex(p.replace(os.sep, '/')))
    dw, sw = _rand_word(rng), _rand_word(rng)
    d, s = lx.word(dw, False), lx.word(sw, False)
    steps = []
    for _ in range(int(rng.integers(6, 13))):
        f = int(rng.integers(len(fam)))
        kinds = ['meta', 'meta', 'events', 'tsib', 'msib'] + (['key'] if fam[f]['desc'] else [])
        kind = kinds[int(rng.integers(len(kinds)))]
        r = _call_lookup(layout, objs[f], kind, dw, sw)
        sib = kind in ('tsib', 'msib')
        steps.append({'f': f + 1, 'kind': kind, 'd': d if sib else 0, 's': s if sib else 0,
                      'path': lx.lex(r.relpath.replace(os.sep, '/'))})
    return {'k': 'layout', 'files': files, 'paths': paths, 'steps': steps}


# ================================================================== (c) Meadows
# stimulus id = alphabetical rank of its name (code-point order, as numpy/python sort)
STIMS = {1: 'a', 2: 'b2', 3: 'stim10', 4: 'stim9', 5: 'stimA', 6: 'tree', 7: 'u', 8: 'zebra', 9: 'zz'}
assert sorted(STIMS.values()) == [STIMS[k] for k in sorted(STIMS)]
PARTS = {1: 'cuddly-bunny', 2: 'able-ox', 3: 'clean-koi'}


def _write_meadows(path, shape, ft, files, stim, parts, layout, varorder=(), dup=0):
    """write the file the vector describes; files[r] = {'order': [...ids], 'vec': [...]}"""
    from scipy.io import savemat

    def full(i, ext):
        # dup: stimuli 1 and 2 share their base name and differ in the extension only
        if dup and i in (1, 2):
            return stim[1] + ('.png' if i == 1 else '.jpg')
        return stim[i] + ext
    if ft == 'mat':
        def names(r):
            return np.array([full(i, '.png') for i in files[r]['order']])

        def utv(r):
            return np.array([files[r]['vec']], dtype=float)
        if shape == '1p1t':
            savemat(path, {'stimuli': names(0), 'rdmutv': utv(0)})
        elif shape == 'mp1t':
            # variables are named after the participant; `varorder` is the order they are stored in
            d = {}
            var = [p.replace('-', '_') for p in parts]
            for item in varorder:
                r = item['r'] - 1
                if item['v'] == 'rdmutv':
                    d['rdmutv_' + var[r]] = utv(r)
                else:
                    d['stimuli_' + var[r]] = names(r)
            savemat(path, d)
        else:                            # single participant, several tasks: not a .mat layout
            savemat(path, {'stimuli': names(0), 'rdmutv': utv(0)})
    else:
        tasks = []
        r = 0
        for pos, flag in enumerate(layout or [1]):
            if flag and r < len(files):
                tasks.append({'status': 'finished', 'task': {'name': f'ma{pos}', 'task_type': 'multiarrange'},
                              'stimuli': [{'id': f'{i:032x}', 'name': full(i, ''), 'type': 'png'}
                                          for i in files[r]['order']],
                              'trials': [], 'rdm': [float(x) for x in files[r]['vec']]})
                r += 1
            else:
                tasks.append({'status': 'finished', 'task': {'name': f'gi{pos}', 'task_type': 'info'},
                              'stimuli': [], 'trials': [], 'isInfo': True})
        with open(path, 'w', encoding='utf-8') as f:
            json.dump({'token': None, 'tasks': tasks}, f)


def _project_rdms(rdms):
    return {'conds': list(rdms.pattern_descriptors.get('conds', [])),
            'vec': np.asarray(rdms.dissimilarities).tolist(),
            'participant': list(rdms.rdm_descriptors.get('participant', [])),
            'task': list(rdms.rdm_descriptors['task']) if 'task' in rdms.rdm_descriptors else None,
            'task_index': [int(x) for x in rdms.rdm_descriptors['task_index']]
            if 'task_index' in rdms.rdm_descriptors else None,
            'experiment_name': rdms.descriptors.get('experiment_name'),
            'measure': rdms.dissimilarity_measure}


def replay_meadows(rec, root, idx, words=WORDS):
    try:
        return _replay_meadows(rec, root, idx, words)
    finally:
        shutil.rmtree(os.path.join(root, f'm{idx}'), ignore_errors=True)


def _replay_meadows(rec, root, idx, words=WORDS):
    from rsatoolbox.io.meadows import load_rdms, extract_filename_segments
    out = []
    i, x = rec['i'], rec['expect']
    fname = to_str(rec['fname'], words)
    if words is WORDS:
        from rsatoolbox.io.petnames import PETNAMES
        if not {WORDS[401], WORDS[402]} <= set(PETNAMES):   # the model's PetWords must be petnames
            raise RuntimeError('word table out of date: model pet words are not in PETNAMES')
    d = os.path.join(root, f'm{idx}')
    os.makedirs(d, exist_ok=True)
    path = os.path.join(d, fname)
    shape, ft = x['shape'], words[x['ft']]
    cls = f'{ft}-{shape}'
    parts = [PARTS[p] for p in x['plist']]
    files = x['file']
    case = {'file': fname, 'shape': shape, 'sort': bool(i['sort']),
            'variables_in_file_order': [f"{v['v']}_{parts[v['r'] - 1].replace('-', '_')}" for v in x['varorder']],
            'stimuli_in_file': [[STIMS[s] for s in f['order']] for f in files],
            'duplicate_base_names': bool(i.get('dup')),
            'vectors_in_file': [f['vec'] for f in files], 'participants': parts, 'task_layout': i['layout']}
    _write_meadows(path, shape, ft, files, STIMS, parts, i['layout'], varorder=x['varorder'], dup=i.get('dup', 0))
    n = 0
    if not rec['loadable']:
        try:
            with warnings.catch_warnings():
                warnings.simplefilter('ignore')
                load_rdms(path, sort=bool(i['sort']))
            out.append(('unsup', f'meadows/{cls}', 'loads although documented as unsupported', None))
        except Exception as ex:
            out.append(('unsup', f'meadows/{cls}', f'{_exc(ex)}: {ex}', None))
        return 1, out, False
    # ---- the name
    try:
        info = extract_filename_segments(path)
        n += 1
        want = {'version': words[x['ver']][1:], 'experiment_name': words[x['exp']], 'structure': words[x['struct']],
                'filetype': ft,
                'participant_scope': 'multiple' if shape == 'mp1t' else 'single',
                'task_scope': 'multiple' if shape == '1pmt' else 'single'}
        if shape != 'mp1t':
            want['participant'] = to_str(x['participant'][0], words)
        if shape == '1p1t':
            want['task_index'] = x['task_index'][0]
        if shape == 'mp1t':
            want['task_name'] = to_str(x['task'][0], words)
        bad = sorted(k for k in set(want) | set(info) if info.get(k) != want.get(k))
        if bad:
            out.append(('viol', f'C20/c/{cls}/name/' + '+'.join(bad), 'file-name segments are interpreted '
                        'differently from the name grammar', {**case, 'got': info, 'want': want}))
    except Exception as ex:
        out.append(('viol', f'C20/c/{cls}/name/raises/{_exc(ex)}', str(ex), case))
    # ---- the contents
    pv = '/per-participant-stimulus-order' if i.get('pvar') else ''
    try:
        with warnings.catch_warnings():
            warnings.simplefilter('ignore')
            rdms = load_rdms(path, sort=bool(i['sort']))
        g = _project_rdms(rdms)
    except Exception as ex:
        out.append(('viol', f'C20/c/{cls}{pv}/raises/{_exc(ex)}', f'load_rdms raises {ex}', case))
        return n + 1, out, True
    n += 1
    def wanted(y):
        w = {'conds': [STIMS[s] for s in x['labels']], 'vec': [[float(v) for v in r] for r in y['vec']],
             'experiment_name': words[x['exp']]}
        swaps[id(w)] = [[float(v) for v in r] for r in y['vecswap']]    # equal labels in the other order
        if shape == 'mp1t':
            w['participant'] = parts
            w['task'] = [to_str(t, words) for t in x['task']]
        else:
            w['participant'] = [to_str(p, words) for p in y['participant']]
        if shape == '1pmt':
            w['task'] = [f'ma{p - 1}' for p in y['tpos']]
        if shape != 'mp1t':
            w['task_index'] = list(y['task_index'])
        return w
    # a json task that lists the same stimuli in another order may be left out (the loader documents a
    # warning) or brought into the common order; anything else is a mismatch
    swaps = {}
    cands = [wanted(x)]
    if x['alt']['tpos'] != x['tpos']:
        cands.append(wanted({**x, **x['alt']}))
    dp = '/duplicate-base-names' if i.get('dup') and not pv else ''
    if not any(all(g[k] == w[k] or (k == 'vec' and g[k] == swaps[id(w)]) for k in w) for w in cands):
        want = next((w for w in cands if w.get('task') == g.get('task')), cands[0])
        ro = '/reordered-task' if len(cands) > 1 else ''
        for k, label in (('conds', 'conds'), ('participant', 'participant'), ('task', 'task'),
                         ('task_index', 'task_index'), ('vec', 'values'), ('experiment_name', 'experiment_name')):
            if k in want and g[k] != want[k]:
                if (k == 'vec' and shape == 'mp1t' and not i.get('pvar') and len(g[k]) == len(want[k])
                        and sorted(map(tuple, g[k])) == sorted(map(tuple, want[k]))):
                    out.append(('viol', f'C20/c/{cls}/participant-values', "a participant is given another "
                                "participant's dissimilarities (names and vectors are paired by the position of "
                                "the file's variables instead of by their names)", {**case, 'got': g, 'want': want}))
                    break
                what = {'conds': 'stimulus labels differ from the file (in file order / alphabetical order on request)',
                        'vec': 'a dissimilarity is not attached to the two stimuli it belongs to in the file'}.get(
                            k, f'{label} descriptor does not match the file and its name')
                out.append(('viol', f'C20/c/{cls}{pv}{ro}{dp}/{label}', what, {**case, 'got': g, 'want': want}))
                break
    return n, out, True


def record_meadows(rng, root, idx, petnames):
    """random file (up to 8 stimuli, random names) -> load_rdms -> logged projection (ids by rank)."""
    from rsatoolbox.io.meadows import load_rdms, extract_filename_segments
    lx = Lexer(petnames)
    shape = ['1p1t', 'mp1t', '1pmt'][int(rng.integers(3))]
    ft = 'json' if shape == '1pmt' else 'mat'
    n = int(rng.integers(3, 9))
    names = set()
    while len(names) < n:
        names.add(_rand_word(rng, False))
    names = sorted(names)                        # id k <-> names[k-1] (alphabetical rank)
    stim = {k + 1: v for k, v in enumerate(names)}
    order = [int(v) + 1 for v in rng.permutation(n)]
    sort = int(rng.integers(2))

    extremes = [petnames[0], petnames[-1], min(petnames, key=len), max(petnames, key=len)]

    def nick():
        pet = extremes[int(rng.integers(4))] if rng.random() < 0.25 else petnames[int(rng.integers(len(petnames)))]
        return _rand_word(rng, False).lower() + '-' + pet
    exp = _rand_word(rng, False)
    ver = 'v' + str(int(rng.integers(1, 40)))
    struct = ['1D', 'tree', 'events', '2D'][int(rng.integers(4))]
    parts, layout, pids = [], [], []
    if shape == '1p1t':
        mid = [nick(), str(int(rng.integers(0, 100)))]
        nr = 1
    elif shape == '1pmt':
        mid = [nick()]
        nr = int(rng.integers(1, 5))
        layout = [int(v) for v in rng.choice([1, 1, 2, 3], size=nr)] + [0] * int(rng.integers(0, 4))
        layout = [int(v) for v in rng.permutation(layout)]
        first = next(k for k, v in enumerate(layout) if v)
        layout[first] = 1                      # the first multi-arrangement task defines the order
    else:
        t = _rand_word(rng, False)
        while t.isdigit():
            t = _rand_word(rng, False)
        if rng.random() < 0.3:
            t = t + '-' + 'zzznotapet'
        mid = [t]
        nr = int(rng.integers(1, 5))
        while len(parts) < nr:
            p = nick()
            if p not in parts:
                parts.append(p)
        pids = list(range(1, nr + 1))
    fname = '_'.join(['Meadows', exp, 'v', ver] + mid + [struct]) + '.' + ft

    def tok(r, a, b):
        return 100 * r + 10 * min(a, b) + max(a, b)
    kinds = [v for v in layout if v] if shape == '1pmt' else [1] * nr

    def forder(kind):
        return order[::-1] if kind == 2 else (order[:-1] + [n + 1] if kind == 3 else order)
    stim[n + 1] = '~' + names[0]               # the extra stimulus of a task with another stimulus set
    files = [{'order': forder(kd), 'vec': [tok(r + 1, forder(kd)[a], forder(kd)[b])
                                           for a in range(n) for b in range(a + 1, n)]}
             for r, kd in enumerate(kinds)]
    d = os.path.join(root, f'r{idx}')
    os.makedirs(d, exist_ok=True)
    path = os.path.join(d, fname)
    uperm = [int(v) + 1 for v in rng.permutation(len(parts))]
    weave = int(rng.integers(2)) if len(parts) >= 2 else 0
    sv = [{'v': 'stimuli', 'r': r + 1} for r in range(len(parts))]
    uv = [{'v': 'rdmutv', 'r': u} for u in uperm]
    varorder = [x for pair in zip(sv, uv) for x in pair] if weave else uv + sv
    _write_meadows(path, shape, ft, files, stim, parts, layout, varorder=varorder)
    try:
        with warnings.catch_warnings():
            warnings.simplefilter('ignore')
            rdms = load_rdms(path, sort=bool(sort))
        info = extract_filename_segments(path)
    finally:
        shutil.rmtree(d, ignore_errors=True)
    g = _project_rdms(rdms)
    atoms = lx.lex(fname, known_only=False)
    rank = {v: k for k, v in stim.items()}
    vec = np.asarray(g['vec'])
    got = {'shape': {('single', 'single'): '1p1t', ('single', 'multiple'): '1pmt',
                     ('multiple', 'single'): 'mp1t'}[(info['participant_scope'], info['task_scope'])],
           'exp': lx.t2i.get(g['experiment_name'], 9999), 'ver': lx.t2i.get('v' + info['version'], 9999),
           'struct': lx.t2i.get(info['structure'], 9999), 'ft': lx.t2i.get(info['filetype'], 9999),
           'conds': [rank.get(c, 99) for c in g['conds']],
           'vec': [[int(v) if float(v).is_integer() else -1 for v in row] for row in vec.tolist()],
           'participant': [lx.lex(p) for p in g['participant']] if shape != 'mp1t' else [],
           'plist': [parts.index(p) + 1 if p in parts else 99 for p in g['participant']] if shape == 'mp1t' else [],
           'task': [lx.lex(t) for t in (g['task'] or [])] if shape == 'mp1t' else [],
           'tpos': [int(t[2:]) + 1 if re.fullmatch(r'ma\d+', t) else 99 for t in (g['task'] or [])]
           if shape == '1pmt' else [],
           'task_index': g['task_index'] if g['task_index'] is not None else []}
    return {'k': 'meadows', 'fname': atoms, 'got': got, 'text': fname,
            'i': {'order': order, 'sort': sort, 'parts': pids, 'layout': layout, 'pvar': 0,
                  'uperm': uperm, 'weave': weave, 'dup': 0}}


# ================================================================== (d) MNE epochs
CHAN = {1: 'A1', 2: 'X32', 3: 'MEG 0113'}


class StandInEpochs:
    """the four things dataset_from_epochs reads from an mne Epochs object"""

    def __init__(self, data, events, ch_names, times):
        self._data, self.events, self.ch_names, self.times = data, events, ch_names, times

    def get_data(self, *a, **k):
        return self._data


def _mne_objects(i, meas, real):
    data = np.asarray(meas, dtype=float)
    ne = data.shape[0]
    events = np.array([[10 * k + 3, 0, c] for k, c in enumerate(i['codes'])], dtype=int).reshape(ne, 3)
    names = [CHAN[c] for c in range(1, i['nc'] + 1)]
    times = np.array([(t - i['first']) / i['sfreq'] for t in range(i['nt'])])
    objs = [('stand-in', StandInEpochs(data, events, names, times))]
    if real:
        import mne
        info = mne.create_info(ch_names=names, ch_types='eeg', sfreq=float(i['sfreq']))
        objs.append(('mne.EpochsArray', mne.EpochsArray(data, info, events, tmin=-i['first'] / i['sfreq'],
                                                        verbose='error')))
    return objs


def _project_ds(ds):
    return {'meas': np.asarray(ds.measurements).tolist(),
            'event': [int(v) for v in ds.obs_descriptors.get('event', [])],
            'name': list(ds.channel_descriptors.get('name', [])),
            'time': [float(v) for v in ds.time_descriptors.get('time', [])]}


def _replay_mne_file(rec, root, idx, words=WORDS):
    """read_epochs on a real .fif file whose name carries BIDS entities"""
    from rsatoolbox.io.mne import read_epochs
    out = []
    i, x = rec['i'], rec['expect']
    fname = to_str(x['fname'], words)
    d = os.path.join(root, f'e{idx}')
    os.makedirs(d, exist_ok=True)
    path = os.path.join(d, fname)
    case = {'file': fname, 'shape': [i['ne'], i['nc'], i['nt']], 'codes': i['codes']}
    try:
        with warnings.catch_warnings():
            warnings.simplefilter('ignore')
            ep = _mne_objects(i, x['meas'], True)[1][1]
            ep.save(path, overwrite=True, verbose='error')
            ds = read_epochs(path)
        g = _project_ds(ds)
    except Exception as ex:
        return 1, [('viol', f'C20/d/read_epochs/raises/{_exc(ex)}', str(ex), case)]
    finally:
        shutil.rmtree(d, ignore_errors=True)
    want = {k: words[v] for k, v in x['descs'].items() if v}
    want['filename'] = fname
    got = dict(ds.descriptors)
    if got != want:
        out.append(('viol', 'C20/d/read_epochs/descriptors', 'dataset descriptors differ from the file name and '
                    'its sub / run / task entities', {**case, 'got': got, 'want': want}))
    if g['meas'] != [[[float(v) for v in c] for c in e] for e in x['meas']] or g['event'] != x['event'] \
            or g['name'] != [CHAN[c] for c in x['name']]:
        out.append(('viol', 'C20/d/read_epochs/content', 'data / events / channel names read from the file differ',
                    {**case, 'got': g}))
    wt = [a / b for a, b in x['time']]
    if len(g['time']) != len(wt) or any(abs(a - b) > 1e-9 for a, b in zip(g['time'], wt)):
        out.append(('viol', 'C20/d/read_epochs/time', 'times read from the file differ', {**case, 'got': g['time']}))
    return 1, out


def replay_mne(rec, real=True, root=None, idx=0):
    from rsatoolbox.io.mne import dataset_from_epochs
    out = []
    i, x = rec['i'], rec['expect']
    n = 0
    if x.get('fname'):
        n, out = _replay_mne_file(rec, root, idx)
    with warnings.catch_warnings():
        warnings.simplefilter('ignore')
        for label, ep in _mne_objects(i, x['meas'], real):
            case = {'epochs': label, 'shape': [i['ne'], i['nc'], i['nt']], 'codes': i['codes'],
                    'sfreq': i['sfreq'], 'first_sample': -i['first']}
            try:
                ds = dataset_from_epochs(ep, {'sub': '01'})
                g = _project_ds(ds)
            except Exception as ex:
                out.append(('viol', f'C20/d/epochs/raises/{_exc(ex)}', str(ex), case))
                continue
            n += 1
            want = {'meas': [[[float(v) for v in c] for c in e] for e in x['meas']], 'event': x['event'],
                    'name': [CHAN[c] for c in x['name']]}
            for k in ('meas', 'event', 'name'):
                if g[k] != want[k]:
                    out.append(('viol', f'C20/d/epochs/{k}', f'{k} of the dataset differ from the epochs',
                                {**case, 'got': g[k], 'want': want[k]}))
            wt = [a / b for a, b in x['time']]
            if len(g['time']) != len(wt) or any(abs(a - b) > 1e-12 for a, b in zip(g['time'], wt)):
                out.append(('viol', 'C20/d/epochs/time', 'time descriptor differs from the epochs times',
                            {**case, 'got': g['time'], 'want': wt}))
            if ds.descriptors.get('sub') != '01':
                out.append(('viol', 'C20/d/epochs/descriptors', 'dataset descriptors not passed through', case))
    return n, out, True


def record_mne(rng, root=None, tag=''):
    from rsatoolbox.io.mne import dataset_from_epochs
    i = {'ne': int(rng.integers(1, 7)), 'nc': int(rng.integers(1, 4)), 'nt': int(rng.integers(1, 8)),
         'sfreq': int([20, 50, 100, 250, 256, 600, 2048][rng.integers(7)]), 'first': int(rng.integers(0, 5))}
    i['codes'] = [int(c) for c in rng.integers(1, 40, size=i['ne'])]
    i['name'] = {k: ([] if k == 'ext' else 0) for k in ENTS}
    meas = [[[100 * e + 10 * c + t for t in range(1, i['nt'] + 1)] for c in range(1, i['nc'] + 1)]
            for e in range(1, i['ne'] + 1)]
    descs = {'sub': 0, 'run': 0, 'task': 0}
    with warnings.catch_warnings():
        warnings.simplefilter('ignore')
        if root is not None and rng.random() < 0.5:
            # a real file with a random BIDS-style name, read back with read_epochs
            from rsatoolbox.io.mne import read_epochs
            lx = Lexer()
            vals = {k: (['007', '0010', 'run', 'sub01'][int(rng.integers(4))] if rng.random() < 0.3
                        else _rand_word(rng)) if rng.random() < 0.7 else None for k in ('sub', 'ses', 'task', 'run')}
            if vals['run'] and rng.random() < 0.8:        # run labels are usually zero-padded numbers
                vals['run'] = ['1', '02', '007', '0010', '10'][int(rng.integers(5))]
            segs = [f'{k}-{v}' for k, v in vals.items() if v] + ['epo']
            fname = '_'.join(segs) + '.fif'
            i['name'] = dict(i['name'], suffix=14, ext=[15], **{k: (lx.word(v, False) if v else 0)
                                                                  for k, v in vals.items()})
            d = os.path.join(root, f'q{tag}')
            os.makedirs(d, exist_ok=True)
            try:
                ep = _mne_objects(i, meas, True)[1][1]
                ep.save(os.path.join(d, fname), overwrite=True, verbose='error')
                ds = read_epochs(os.path.join(d, fname))
            finally:
                shutil.rmtree(d, ignore_errors=True)
            label = fname
            g = _project_ds(ds)
            gd = dict(ds.descriptors)
            descs = {k: lx.t2i.get(gd[k], 9999) if k in gd else 0 for k in ('sub', 'run', 'task')}
            if gd.get('filename') != fname or set(gd) - {'filename', 'sub', 'run', 'task'}:
                descs['sub'] = 9998
        else:
            label, ep = _mne_objects(i, meas, True)[int(rng.integers(2))]
            g = _project_ds(dataset_from_epochs(ep))
    rev = {v: k for k, v in CHAN.items()}

    def rat(t):
        k = round(t * i['sfreq'])
        return [int(k), i['sfreq']] if abs(k / i['sfreq'] - t) < 1e-12 else [999999, 1]
    got = {'meas': [[[int(v) if float(v).is_integer() else -1 for v in c] for c in e] for e in g['meas']],
           'event': g['event'], 'name': [rev.get(nm, 99) for nm in g['name']], 'time': [rat(t) for t in g['time']],
           'descs': descs}
    return {'k': 'mne', 'i': i, 'got': got, 'text': label}


# ================================================================== (e) design matrix
TRS = {1: 1.0, 2: 2.0, 3: 2.5}
CONDN = {1: 'b', 2: 'a', 3: 'c', 4: 'B2'}


def _dm_inputs(i, seed):
    import pandas
    rng = np.random.default_rng(seed)
    dur = [0.5, 1.0, 2.0][seed % 3]
    jit = [0.0, 0.25, 0.5][(seed // 3) % 3]
    # generator constraint: every event starts at least two volumes before the end of the scan, so that
    # every condition has a response inside the scan (a constant column has no range to normalise by)
    tr = TRS[i['tr']]
    step = min(2.0, (tr * (i['nvols'] - 1) - 2 * tr - 1.0) / max(1, len(i['ev']) - 1))
    ev = pandas.DataFrame([dict(onset=1.0 + step * k + jit * (k % 2) * min(1.0, step / 2), duration=dur,
                                trial_type=CONDN[c]) for k, c in enumerate(i['ev'])])
    cf = None
    if i['nconf'] or seed % 2:
        cf = pandas.DataFrame({f'conf{j}': rng.normal(size=i['nvols']) * (j + 1) + 3 * j
                               for j in range(i['nconf'])}, index=range(i['nvols']))
        for j in i.get('nan', []):             # fmriprep *_derivative1 columns: first volume is n/a
            cf.iloc[0, j - 1] = np.nan
    return ev, cf


def _dm_measure(i, seed):
    """call make_design_matrix and project to the structure the specification states"""
    from rsatoolbox.io.fmriprep import make_design_matrix
    ev, cf = _dm_inputs(i, seed)
    tr = TRS[i['tr']]
    dm, mask, dof = make_design_matrix(ev, tr, i['nvols'], cf)
    dm = np.asarray(dm)
    g = {'shape': list(dm.shape), 'ncols': int(dm.shape[1]) if dm.ndim == 2 else -1,
         'mask': [int(bool(m)) for m in np.asarray(mask).tolist()], 'dof': int(dof),
         'masklen': int(np.asarray(mask).size),
         'dof_is_int': float(dof) == int(dof)}
    conds = list(dict.fromkeys(i['ev']))
    npred = sum(g['mask'])
    pred = dm[:, [k for k, m in enumerate(g['mask']) if m]] if dm.ndim == 2 and len(g['mask']) == dm.shape[1] \
        else dm[:, :0]
    # which condition does predictor column k belong to?  The column must be what the events of that
    # condition alone produce (a column is a function of its own condition's events only)
    singles = {}
    for c in sorted(set(i['ev'])):
        d1, _, _ = make_design_matrix(ev[ev.trial_type == CONDN[c]], tr, i['nvols'], None)
        singles[c] = np.asarray(d1)[:, 0]
    colcond = []
    for k in range(pred.shape[1]):
        hit = [c for c, s in singles.items() if np.all(np.isfinite(pred[:, k])) and np.abs(pred[:, k] - s).max() < TOL]
        colcond.append(hit[0] if len(hit) == 1 else 0)
    g['colcond'] = colcond
    g['range'] = [float(np.ptp(pred[:, k])) for k in range(pred.shape[1])]
    g['mean'] = [float(pred[:, k].mean()) for k in range(pred.shape[1])]
    g['norm'] = int(all(abs(r - 1) < TOL for r in g['range']) and all(abs(m) < TOL for m in g['mean'])
                    and npred == pred.shape[1])
    # confound columns: the flagged-off columns are the confounds, each up to a positive affine map
    conf_ok = True
    if cf is not None and dm.ndim == 2 and len(g['mask']) == dm.shape[1]:
        cc = dm[:, [k for k, m in enumerate(g['mask']) if not m]]
        kept = [j for j in range(cf.shape[1]) if (j + 1) not in i.get('nan', [])]   # columns without n/a
        conf_ok = cc.shape[1] == len(kept)
        for col, j in enumerate(kept[:cc.shape[1]]):
            a = cf.values[:, j]
            z = (a - a.mean()) / np.ptp(a)
            y = cc[:, col]
            slope = float(np.dot(y - y.mean(), z) / np.dot(z, z))
            if not (slope > 0 and np.abs((y - y.mean()) - slope * z).max() < 1e-9 * max(1.0, abs(slope))):
                conf_ok = False
    g['conf'] = int(conf_ok)
    return g, {'events': ev.to_dict('records'), 'tr': tr, 'n_vols': i['nvols'],
               'confounds': None if cf is None else list(cf.columns)}


def replay_dm(rec, seed):
    out = []
    i, x = rec['i'], rec['expect']
    try:
        g, case = _dm_measure(i, seed)
    except Exception as ex:
        return 1, [('viol', f'C20/e/design/raises/{_exc(ex)}', str(ex), {'i': i})], True
    case = {**case, 'got': g, 'want': x}
    if g['ncols'] != x['ncols'] or g['shape'] != [i['nvols'], x['ncols']]:
        out.append(('viol', 'C20/e/design/ncols', 'not one column per condition plus one per confound '
                    '(confound columns with n/a values are dropped)', case))
    elif g['masklen'] != g['ncols']:
        out.append(('viol', 'C20/e/design/mask-length', 'the predictor/confound mask does not have one flag per '
                    'column of the matrix', case))
    elif g['mask'] != x['mask']:
        out.append(('viol', 'C20/e/design/mask', 'predictor/confound flags differ', case))
    else:
        # one column per condition: the columns are, in SOME order, the responses to each condition's own
        # events (the property does not state the order; first appearance is only recorded)
        if sorted(g['colcond']) != sorted(x['colcond']):
            out.append(('viol', 'C20/e/design/column-condition', 'the predictor columns are not one-to-one the '
                        "responses to the conditions' own events", case))
        elif g['colcond'] != x['colcond']:
            out.append(('unsup', 'dm/column-order-differs-from-first-appearance', str(g['colcond']), None))
        if not all(abs(r - 1) < TOL for r in g['range']):
            out.append(('viol', 'C20/e/design/range', 'a condition column is not range-normalised', case))
        if not all(abs(m) < TOL for m in g['mean']):
            out.append(('viol', 'C20/e/design/centre', 'a condition column is not centred', case))
        if not g['conf']:
            out.append(('viol', 'C20/e/design/confound', 'a flagged confound column is not the confound', case))
    if g['dof'] != i['nvols'] - g['ncols'] or g['dof'] != x['dof'] or not g['dof_is_int']:
        out.append(('viol', 'C20/e/design/dof', 'dof differs from volumes - columns', case))
    return 1 + len(set(i['ev'])), out, True


def record_dm(rng):
    nc = int(rng.integers(1, 4))
    ev = list(range(1, nc + 1)) + [int(v) for v in rng.integers(1, nc + 1, size=int(rng.integers(0, 4)))]
    ev = [int(v) for v in rng.permutation(ev)]
    i = {'ev': ev, 'tr': int(rng.integers(1, 4)), 'nvols': int(rng.integers(14, 41)), 'nconf': int(rng.integers(0, 5))}
    i['nan'] = sorted(int(j) + 1 for j in np.flatnonzero(rng.random(i['nconf']) < 0.35))
    g, case = _dm_measure(i, int(rng.integers(0, 1000)))
    return {'k': 'dm', 'i': i, 'got': {k: g[k] for k in ('ncols', 'mask', 'masklen', 'dof', 'colcond', 'norm', 'conf')},
            'text': json.dumps(case['events'])[:300]}


# ================================================================== (e') design matrix on the grid, exact
def check_hrf_table():
    """the specification's snapshot of the HRF (specs/ImportersHrf.tla) against the library's table"""
    from rsatoolbox.io.hrf import HRF
    from harness.core import SPECS
    txt = (SPECS / 'ImportersHrf.tla').read_text()
    body = txt[txt.index('HrfTable == <<') + 14:txt.index('>>', txt.index('HrfTable == <<'))]
    tab = [int(t.replace('(0 - ', '-').replace(')', '')) for t in body.replace('\n', ' ').split(',')]
    lib = np.asarray(HRF, dtype=float)
    if len(tab) != len(lib) or np.abs(np.asarray(tab) / 1e7 - lib).max() > 1e-12:
        return [('viol', 'C20/e/hrf/table', 'the HRF table of rsatoolbox.io.hrf differs from the standard HRF the '
                 'specification holds (490 samples at 100 ms)', {'n_lib': len(lib), 'n_spec': len(tab)})]
    return []


def _hrf_events(i):
    import pandas
    tr = i['s'] / 10
    dur = i['B'] / 10
    ev = pandas.DataFrame([dict(onset=m * tr, duration=dur, trial_type=CONDN.get(c, f'k{c}')) for c, m in i['ev']])
    if int(np.median(ev.duration) / 0.1) != i['B']:       # generator constraint: duration is B grid steps
        return None, tr
    return ev, tr


def replay_hrf(rec):
    from rsatoolbox.io.fmriprep import make_design_matrix
    i, x = rec['i'], rec['expect']
    ev, tr = _hrf_events(i)
    if ev is None:
        return 0, [('unsup', 'hrf/duration-not-on-grid', str(i['B']), None)], False
    case = {'events': ev.to_dict('records'), 'tr': tr, 'n_vols': i['nvols']}
    if any(d == 0 for d in x['den']):
        # a condition whose response lies entirely outside the scan: constant column, range undefined
        with warnings.catch_warnings():
            warnings.simplefilter('ignore')
            try:
                make_design_matrix(ev, tr, i['nvols'], None)
            except Exception:
                pass
        return 1, [('unsup', 'hrf/constant-column', 'a condition without response inside the scan', None)], False
    try:
        with warnings.catch_warnings():
            warnings.simplefilter('ignore')
            dm, mask, dof = make_design_matrix(ev, tr, i['nvols'], None)
        dm = np.asarray(dm)
    except Exception as ex:
        return 1, [('viol', f'C20/e/hrf/raises/{_exc(ex)}', str(ex), case)], True
    out = []
    want = np.array([[v / d for v in col] for col, d in zip(x['num'], x['den'])]).T
    if dm.shape != want.shape or len(mask) != want.shape[1] or int(dof) != x['dof']:
        out.append(('viol', 'C20/e/hrf/shape', 'shape / mask / dof of the design matrix',
                    {**case, 'got': [list(dm.shape), len(mask), int(dof)], 'want': [list(want.shape), x['dof']]}))
    else:
        err = np.abs(dm - want)
        if not np.all(np.isfinite(dm)) or err.max() > TOL:
            j, c = np.unravel_index(np.nanargmax(np.where(np.isfinite(err), err, np.inf)), err.shape)
            before = all(m > j for cc, m in i['ev'] if cc == x['colcond'][c])
            out.append(('viol', 'C20/e/hrf/' + ('nonzero-before-onset' if before else 'values'),
                        'design matrix differs from the exact convolution of the HRF table with the events '
                        '(box of the event duration, sampled every TR, centred, range-normalised)',
                        {**case, 'volume': int(j), 'column': int(c), 'got': float(dm[j, c]),
                         'want': float(want[j, c]), 'got_column': dm[:, c].tolist(), 'want_column': want[:, c].tolist()}))
    return 1, out, True


def record_hrf(rng):
    from rsatoolbox.io.fmriprep import make_design_matrix
    while True:
        nc = int(rng.integers(1, 5))
        nv = int(rng.integers(12, 41))
        conds = list(range(1, nc + 1)) + [int(v) for v in rng.integers(1, nc + 1, size=int(rng.integers(0, 5)))]
        i = {'s': int([10, 20, 25][rng.integers(3)]), 'B': int([5, 10, 20, 30][rng.integers(4)]), 'nvols': nv,
             'ev': [[int(c), int(rng.integers(-6, nv - 2))] for c in rng.permutation(conds)]}
        ev, tr = _hrf_events(i)
        if ev is not None:
            break
    with warnings.catch_warnings():
        warnings.simplefilter('ignore')
        dm, mask, dof = make_design_matrix(ev, tr, nv, None)
    dm = np.asarray(dm)
    cols = [[int(v) for v in np.rint(dm[:, c] * 10000)] for c in range(dm.shape[1])]
    return {'k': 'hrf', 'i': i, 'got': {'cols': cols, 'dof': int(dof), 'masklen': int(len(mask))},
            'text': json.dumps(ev.to_dict('records'))[:300]}


# ================================================================== (b'') a derivative data set on disk
class FakeNibabel:
    """stands in for nibabel (not installed here): images are .npy payloads under the image's file name"""

    class _Img:
        def __init__(self, path):
            self._path = path

        def get_fdata(self):
            with open(self._path, 'rb') as f:
                return np.load(f)

    @classmethod
    def load(cls, path):
        return cls._Img(path)


def _ds_payload(path_str, kind):
    """content that identifies the file: a number derived from its path"""
    h = sum((k + 1) * ord(ch) for k, ch in enumerate(path_str)) % 9973
    if kind == 'bold':
        return (np.arange(2 * 2 * 2 * 3, dtype=float).reshape(2, 2, 2, 3) + h)
    if kind == 'mask':
        m = np.zeros((2, 2, 2))
        m.flat[[h % 8, (h // 8) % 8, 7]] = 1
        return m
    return (np.arange(8).reshape(2, 2, 2) + h) % 3 * 2.0      # parcellation labels 0, 2, 4


def replay_dataset(rec, root, idx, words=WORDS):
    import rsatoolbox.io.bids as bids_mod
    from rsatoolbox.io.fmriprep import find_fmriprep_runs, FmriprepRun
    from rsatoolbox.io.bids import BidsLayout
    i, x = rec['i'], rec['expect']
    q = i['q']
    base = os.path.join(root, f'd{idx}')
    out = []
    n = 0
    cols = ['trans_y', 'csf', 'rot_x']
    try:
        for atoms in x['files']:
            p = to_str(atoms, words)
            full = os.path.join(base, p.replace('/', os.sep))
            os.makedirs(os.path.dirname(full), exist_ok=True)
            if p.endswith('.json'):
                _write(full, json.dumps({'who': p}))
            elif p.endswith('events.tsv'):
                _write(full, 'onset\tduration\ttrial_type\twho\n0\t1\ta\t' + p + '\n1\t1\tb\t' + p + '\n')
            elif p.endswith('timeseries.tsv'):
                h = sum(map(ord, p)) % 97
                _write(full, 'rot_x\tcsf\ttrans_y\twho\n' + ''.join(f'{h + k}\t{2 * h + k}\t{3 * h + k}\t{p}\n'
                                                                      for k in range(3)))
            else:
                kind = 'bold' if p.endswith('bold.nii.gz') else ('mask' if p.endswith('mask.nii.gz') else 'parc')
                with open(full, 'wb') as f:
                    np.save(f, _ds_payload(p, kind))
        for r in x['found']:
            if r['key']:
                _write(os.path.join(base, to_str(r['key'], words).replace('/', os.sep)),
                       'index\tname\n0\tnothing\n2\tfoo\n4\tbar\n')
        der, desc = words[q['der']], words[q['desc']] + ('_' + words[q['suffix']] if q['suffix'] else '')
        tasks = [words[t] for t in q['tasks']] or None
        case = {'files_in_data_set': sorted(to_str(a, words) for a in x['files']), 'derivative': der, 'desc': desc,
                'tasks': tasks}
        want = {to_str(r['path'], words): r for r in x['found']}
        old = bids_mod.import_nibabel
        bids_mod.import_nibabel = lambda mock=None: mock or FakeNibabel      # nibabel is not installed here
        try:
            if der == 'fmriprep' and desc == 'preproc_bold':
                runs = find_fmriprep_runs(base, tasks=tasks)
                files = [r.boldFile for r in runs]
            else:
                runs = None
                files = BidsLayout(base).find_mri_derivative_files(derivative=der, desc=desc, tasks=tasks)
        finally:
            bids_mod.import_nibabel = old
        n += 1
        try:        # a pipeline that is not there is reported, not silently empty
            BidsLayout(base, nibabel=FakeNibabel).find_mri_derivative_files(derivative='nosuchpipeline', desc=desc)
            out.append(('viol', 'C20/b/dataset/find/missing-pipeline-not-reported', 'asking for a derivative directory '
                        'that does not exist does not raise', case))
        except ValueError:
            pass
        got = [f.relpath.replace(os.sep, '/') for f in files]
        if sorted(got) != sorted(want):
            miss, extra = sorted(set(want) - set(got)), sorted(set(got) - set(want))
            cls = 'duplicates' if len(set(got)) != len(got) and not miss and not extra else \
                ('missing' if miss and not extra else ('extra' if extra and not miss else 'wrong-files'))
            out.append(('viol', f'C20/b/dataset/find/{cls}', 'the files found in the derivative data set are not '
                        'exactly the files of that pipeline with the asked desc / task',
                        {**case, 'missing': miss, 'extra': extra, 'got': got}))
            return n, out, True
        for f in files:
            r = want[f.relpath.replace(os.sep, '/')]
            e = {k: _ent_str(r['ent'], k, words) for k in ENTS}
            if _attrs(f) != e:
                out.append(('viol', 'C20/b/dataset/entities', 'entities of a found file', {**case, 'file': f.relpath,
                                                                                         'got': _attrs(f)}))
        for run in (runs or []):
            p = run.boldFile.relpath.replace(os.sep, '/')
            r = want[p]
            c2 = {**case, 'run': p}
            wd = {k: words[v] for k, v in r['descs'].items() if v}
            try:
                gd = run.get_dataset_descriptors()
                n += 1
                if gd != wd:
                    bad = sorted(k for k in set(gd) | set(wd) if gd.get(k) != wd.get(k))
                    out.append(('viol', 'C20/b/fmriprep/dataset-descriptors/' + '+'.join(bad), 'dataset descriptors '
                                'of a run are not the sub / ses / run / task entities of its file',
                                {**c2, 'got': gd, 'want': wd}))
                checks = [('events', lambda: run.get_events()['who'][0], to_str(r['events'], words)),
                          ('meta', lambda: run.get_meta()['who'], to_str(r['meta'], words)),
                          ('confounds', lambda: run.boldFile.get_table_sibling('confounds', 'timeseries')
                           .get_frame()['who'][0], to_str(r['confounds'], words))]
                for name, fn, wantp in checks:
                    who = fn()
                    n += 1
                    if who != wantp:
                        out.append(('viol', f'C20/b/fmriprep/{name}/file', f'a run reads the {name} of another file',
                                    {**c2, 'got': who, 'want': wantp}))
                cf = run.get_confounds(cols)
                n += 1
                h = sum(map(ord, to_str(r['confounds'], words))) % 97
                wantcf = [[3 * h + k, 2 * h + k, h + k] for k in range(3)]
                if list(cf.columns) != cols or cf.values.tolist() != wantcf:
                    out.append(('viol', 'C20/b/fmriprep/confounds/columns', 'get_confounds(names) does not return the '
                                'named columns in the asked order', {**c2, 'got': cf.to_dict('list'), 'asked': cols}))
                wmask = _ds_payload(to_str(r['mask'], words), 'mask').astype(bool)
                wbold = _ds_payload(p, 'bold')
                wparc = _ds_payload(to_str(r['parc'], words), 'parc').astype(int)
                lab = {0: 'nothing', 2: 'foo', 4: 'bar'}
                got_mask = run.get_mask()
                n += 1
                if not np.array_equal(got_mask, wmask):
                    out.append(('viol', 'C20/b/fmriprep/mask/file', "a run reads another file's brain mask", c2))
                for masked in (False, True):
                    d = run.get_data(masked=masked)
                    wd2 = wbold[wmask, :] if masked else wbold.reshape(-1, 3)
                    chd = run.get_channel_descriptors(masked)['aparcaseg']
                    wch = [lab[v] for v in (wparc[wmask] if masked else wparc.ravel())]
                    n += 2
                    if not np.array_equal(d, wd2):
                        out.append(('viol', f'C20/b/fmriprep/data/masked={masked}', 'voxel time courses of a run', c2))
                    if list(chd) != wch:
                        out.append(('viol', f'C20/b/fmriprep/channel-descriptors/masked={masked}', 'parcellation '
                                    'labels are not attached to their voxels', {**c2, 'got': list(chd), 'want': wch}))
                od = run.get_obs_descriptors()['trial_type']
                oc = run.get_obs_descriptors(collapse_by_trial_type=True)['trial_type']
                td = run.to_descriptors(collapse_by_trial_type=False, masked=True)
                n += 3
                if list(od) != ['a', 'b'] or list(oc) != ['a', 'b'] or \
                        list(td['obs_descriptors']['trial_type']) != ['a', 'b'] or \
                        list(td['channel_descriptors']['aparcaseg']) != [lab[v] for v in wparc[wmask]] or \
                        td['descriptors'] != gd:
                    out.append(('viol', 'C20/b/fmriprep/to_descriptors', 'to_descriptors / obs descriptors differ from '
                                'the events, parcellation and entities of the run', c2))
                ident = {'sub': run.sub, 'ses': run.ses, 'run': run.run}
                wident = {k: wd.get(k) for k in ident}
                if ident != wident or repr(run) != f'<FmriprepRun [{p[len("derivatives/fmriprep/"):]}]>'.replace('/', os.sep):
                    out.append(('viol', 'C20/b/fmriprep/identity', 'sub / ses / run properties or repr of a run',
                                {**c2, 'got': [ident, repr(run)]}))
            except Exception as ex:
                out.append(('viol', f'C20/b/fmriprep/raises/{_exc(ex)}', str(ex)[:300], c2))
                break
    finally:
        shutil.rmtree(base, ignore_errors=True)
    return n, out, True


# ================================================================== (g) RDMs -> long table
def _df_rows(rdms, stim_rev, parts):
    from rsatoolbox.io.pandas import rdms_to_df
    df = rdms_to_df(rdms)
    df2 = rdms.to_df()
    if not df.equals(df2):
        return None
    prev = {p: k for k, p in enumerate(parts)}
    rows = []
    for _, row in df.iterrows():
        v = float(row['dissimilarity'])
        rows.append({'dis': int(v) if v.is_integer() else -1, 'rdm': int(row['rdm_index']),
                     'p1': int(row['pattern_index_1']), 'p2': int(row['pattern_index_2']),
                     'c1': stim_rev.get(row['conds_1'], 99), 'c2': stim_rev.get(row['conds_2'], 99),
                     'part': prev.get(row['participant'], 99)})
    return rows


def _df_rdms(nr, order, stim, parts):
    from rsatoolbox.rdm.rdms import RDMs
    n = len(order)
    vec = [[100 * r + 10 * min(order[a], order[b]) + max(order[a], order[b]) for a in range(n)
            for b in range(a + 1, n)] for r in range(1, nr + 1)]
    return RDMs(np.array(vec, dtype=float), rdm_descriptors={'participant': parts[:nr]},
                pattern_descriptors={'conds': [stim[s] for s in order]})


def replay_df(rec):
    i, x = rec['i'], rec['expect']
    parts = [PARTS[k] for k in sorted(PARTS)]
    case = {'n_rdm': i['nr'], 'conds': [STIMS[s] for s in i['order']]}
    try:
        rows = _df_rows(_df_rdms(i['nr'], i['order'], STIMS, parts), {v: k for k, v in STIMS.items()}, parts)
    except Exception as ex:
        return 1, [('viol', f'C20/g/rdms_to_df/raises/{_exc(ex)}', str(ex), case)], True
    if rows is None:
        return 1, [('viol', 'C20/g/rdms_to_df/to_df-differs', 'RDMs.to_df() and rdms_to_df() differ', case)], True
    out = []
    want = [dict(r, part=r['rdm']) for r in x]
    if rows != want:
        k = next((k for k in range(min(len(rows), len(want))) if rows[k] != want[k]), None)
        bad = '+'.join(f for f in ('dis', 'rdm', 'p1', 'p2', 'c1', 'c2', 'part')
                       if k is not None and rows[k][f] != want[k][f]) or 'length'
        out.append(('viol', f'C20/g/rdms_to_df/{bad}', 'a row of the long table does not hold the dissimilarity, RDM '
                    'descriptors and the two pattern descriptors of one (RDM, pair)',
                    {**case, 'row': k, 'got': rows[k] if k is not None else len(rows),
                     'want': want[k] if k is not None else len(want)}))
    return 1, out, True


def record_df(rng):
    nr, n = int(rng.integers(1, 5)), int(rng.integers(2, 8))
    order = [int(v) + 1 for v in rng.permutation(n)]
    parts = [f'p{k}' for k in range(4)]
    stim = {k: f's{k:02d}' for k in range(1, 10)}
    rows = _df_rows(_df_rdms(nr, order, stim, parts), {v: k for k, v in stim.items()}, parts)
    if rows is None or any(r['part'] != r['rdm'] for r in rows):
        rows = [dict(r, dis=-1) for r in (rows or [{'dis': -1, 'rdm': 0, 'p1': 0, 'p2': 0, 'c1': 0, 'c2': 0}])]
    return {'k': 'df', 'i': {'nr': nr, 'order': order},
            'got': [{k: r[k] for k in ('dis', 'rdm', 'p1', 'p2', 'c1', 'c2')} for r in rows]}


# ================================================================== (f) SPM filtering
def _spm_object(runs, via_mat=None):
    from rsatoolbox.io.spm import SpmGlm
    X0 = [np.asarray(r['B'], dtype=float) / r['d'] for r in runs]
    if via_mat is None:
        spm = SpmGlm('/nowhere/glm', Mock())
        spm.nscans = np.array([r['n'] for r in runs])
        spm.nruns = len(runs)
        spm.filter_matrices = X0
        return spm
    from scipy.io import savemat
    os.makedirs(via_mat, exist_ok=True)
    T = sum(r['n'] for r in runs)
    # MATLAB stores integer-valued doubles in the smallest integer type; scipy returns them as such
    SPM = {'nscan': np.array([r['n'] for r in runs], dtype=np.uint8),
           'Vbeta': [{'fname': f'beta_{k:04d}.nii'} for k in range(1, 3)],
           'xY': {'P': [f'/old/place/func/run{k}.nii,1  ' for k in range(T)]},
           'xX': {'name': np.array(['Sn(1) a*bf(1)', 'Sn(1) constant'], dtype=object),
                  'K': [{'X0': x} for x in X0], 'iC': np.array([1], dtype=np.uint8), 'xKXs': {'X': np.eye(T)[:, :2]},
                  'erdf': 1.0, 'W': np.eye(T), 'pKX': np.eye(T)[:2, :]}}
    savemat(os.path.join(via_mat, 'SPM.mat'), {'SPM': SPM})
    spm = SpmGlm(via_mat, Mock())
    try:
        spm.get_info_from_spm_mat()
    finally:
        shutil.rmtree(via_mat, ignore_errors=True)
    return spm


def _spm_classify(out_arr, Y, want):
    scale = 1.0 + float(np.abs(Y).max())
    if out_arr.shape == want.shape and np.abs(out_arr - want).max() <= 1e-9 * scale:
        return None
    if out_arr.shape == Y.shape and np.array_equal(out_arr, Y):
        return 'returns-unfiltered'
    return 'wrong-projection'


def replay_spm(rec, root, idx, via_mat=False):
    out = []
    i, x = rec['i'], rec['expect']
    Y = np.asarray(i['Y'], dtype=float)
    if idx % 2:
        Y = np.asfortranarray(Y)
    want = np.array([[v / row['den'] for v in row['num']] for row in x])
    case = {'nscans': [r['n'] for r in i['runs']],
            'filter_matrices': [(np.asarray(r['B']) / r['d']).tolist() for r in i['runs']],
            'data': Y.tolist(), 'want': want.tolist()}
    n = 0
    modes = [None]
    if via_mat and len(i['runs']) >= 2 and all(len(r['B'][0]) >= 2 for r in i['runs']):
        modes.append(os.path.join(root, f's{idx}'))
    for mode in modes:
        where = 'injected' if mode is None else 'SPM.mat'
        try:
            spm = _spm_object(i['runs'], mode)
        except Exception as ex:
            out.append(('unsup', f'spm/get_info_from_spm_mat/{_exc(ex)}', str(ex)[:200], None))
            continue
        Y0 = Y.copy()
        try:
            got = np.asarray(spm.spm_filter(Y))
        except Exception as ex:
            if mode is None:
                out.append(('viol', f'C20/f/spm_filter/raises/{_exc(ex)}', str(ex), {**case, 'attributes': where}))
            else:           # attribute types come from this harness's synthetic SPM.mat: not a verdict
                out.append(('unsup', f'spm/spm_filter-after-SPM.mat/{_exc(ex)}', str(ex)[:200], None))
            continue
        n += 1
        c = _spm_classify(got, Y0, want)
        if c:
            what = {'returns-unfiltered': 'spm_filter returns its input unchanged: no run loses its component in '
                                          'its filter regressors',
                    'wrong-projection': "a run's result is not Y - X0 (X0' Y) with that run's filter basis"}[c]
            out.append(('viol', f'C20/f/spm_filter/{c}', what, {**case, 'attributes': where, 'got': got.tolist()}))
    return n, out, True


def record_spm(rng):
    nr = int(rng.integers(1, 6))
    runs = []
    for _ in range(nr):
        n = int(rng.integers(2, 7))
        v = rng.integers(-3, 4, size=n)
        while not v.any():
            v = rng.integers(-3, 4, size=n)
        d = int(v @ v)
        H = d * np.eye(n, dtype=int) - 2 * np.outer(v, v)
        cols = rng.permutation(n)[:int(rng.integers(1, min(n, 3) + 1))]
        runs.append({'n': n, 'd': d, 'B': H[:, cols].astype(int).tolist()})
    T = sum(r['n'] for r in runs)
    P = int(rng.integers(1, 6))
    Y = rng.integers(-50, 51, size=(T, P)).astype(float)
    spm = _spm_object(runs)
    got = np.asarray(spm.spm_filter(Y.copy()))
    num, exact = [], 1
    b = 0
    for r in runs:
        blk = got[b:b + r['n']] * (r['d'] ** 2)
        rnd = np.rint(blk)
        if np.abs(blk - rnd).max() > 1e-6 * (1 + np.abs(blk).max()):
            exact = 0
        num += rnd.astype(int).tolist()
        b += r['n']
    return {'k': 'spm', 'runs': runs, 'Y': Y.astype(int).tolist(), 'got': num, 'exact': exact,
            'unfiltered': bool(np.array_equal(got, Y)), 'text': f'nscans={[r["n"] for r in runs]}'}


# ================================================================== dispatch
def replay_line(line, root, idx, seed, fs_every=8, mat_every=0):
    rec = json.loads(line)
    sec = rec['sec']
    if sec == 'layout':
        n, out, nontriv = replay_layout(rec, root, idx, bool(fs_every) and idx % max(1, fs_every // 2) == 0)
    elif sec == 'bids':
        n, out, nontriv = replay_bids(rec, root, idx, rec['valid'] and fs_every and idx % fs_every == 0)
    elif sec == 'meadows':
        n, out, nontriv = replay_meadows(rec, root, idx)
    elif sec == 'mne':
        n, out, nontriv = replay_mne(rec, real=True, root=root, idx=idx)
    elif sec == 'dm':
        n, out, nontriv = replay_dm(rec, seed * 7919 + idx)
    elif sec == 'hrf':
        n, out, nontriv = replay_hrf(rec)
    elif sec == 'dataset':
        n, out, nontriv = replay_dataset(rec, root, idx)
    elif sec == 'df':
        n, out, nontriv = replay_df(rec)
    elif sec == 'spm':
        n, out, nontriv = replay_spm(rec, root, idx, via_mat=bool(mat_every) and idx % mat_every == 0)
    else:
        raise ValueError(sec)
    return sec, n, out, nontriv
