#!/venv/bin/python
"""Run the repository's pinned test suite (guard OFF) and compare with /root/.vp/BASELINE.json."""
import json, os, subprocess, sys, tempfile
import xml.etree.ElementTree as ET
base = json.load(open('/root/.vp/BASELINE.json'))
want = set(base['stable_pass'])
fd, xml = tempfile.mkstemp(suffix='.xml'); os.close(fd)
env = dict(os.environ); env.pop('RSATOOLBOX_VERIF', None)
extra = sys.argv[1:]
cmd = ['/venv/bin/python', '-m', 'pytest', '-ra', '-q', '-p', 'no:cacheprovider', '--timeout=900',
       '--continue-on-collection-errors', f'--junitxml={xml}'] + extra
subprocess.run(cmd, cwd='/repo', env=env, stdout=subprocess.DEVNULL, stderr=subprocess.DEVNULL)
passed = set()
for tc in ET.parse(xml).getroot().iter('testcase'):
    if not list(tc):
        passed.add(f"{tc.get('classname')}::{tc.get('name')}")
    elif all(c.tag in ('system-out', 'system-err', 'properties') for c in tc):
        passed.add(f"{tc.get('classname')}::{tc.get('name')}")
os.unlink(xml)
missing = sorted(want - passed)
print(f'baseline {len(want)} stable tests; passed now {len(passed)}; missing {len(missing)}')
for m in missing:
    print('  MISSING', m)
sys.exit(1 if missing else 0)
