#!/bin/bash
# tools/libcov.sh [check ids...]  - which lines of the library do the conformance harnesses execute?
# Runs the quick tier of the given checks (default: all) under coverage.py (multiprocessing aware), combines the
# data and prints per-file line coverage of /repo/src/rsatoolbox plus the uncovered line ranges into
# $SCRATCH/report.txt.  A planning aid for growing the specifications (not a registered check; scratch outside /verif).
SCRATCH=${LIBCOV_SCRATCH:-/tmp/w/cov}
mkdir -p "$SCRATCH"; rm -f "$SCRATCH"/.coverage*
cat > "$SCRATCH/.coveragerc" <<E
[run]
source = ${VERIF_REPO:-/repo}/src/rsatoolbox
concurrency = multiprocessing
parallel = True
data_file = $SCRATCH/.coverage
E
cd /verif || exit 2
ids=${@:-C01 C02 C03 C04 C05 C06 C07 C08 C09 C10 C11 C12 C13 C14 C15 C16 C17 C18 C19 C20}
mkdir -p "$SCRATCH/evidence"; export VERIF_EVIDENCE_DIR="$SCRATCH/evidence"   # evidence must come from plain runs
for id in $ids; do
  /venv/bin/python -m coverage run --rcfile="$SCRATCH/.coveragerc" ./check "$id" > "$SCRATCH/$id.out" 2>&1
  echo "$id exit=$?"
done
cd "$SCRATCH" && /venv/bin/python -m coverage combine --rcfile=.coveragerc -q && \
  /venv/bin/python -m coverage report --rcfile=.coveragerc -m --skip-empty > report.txt
tail -n 3 report.txt
