#!/venv/bin/python
"""tools/harvest.py CNN [--write]: run ./check CNN, list violation keys not yet in known_findings.json;
with --write append them as open findings (the lead reviews the diff before committing)."""
import json, os, re, subprocess, sys
V = os.path.dirname(os.path.dirname(os.path.abspath(__file__)))
pid = sys.argv[1]
r = subprocess.run([f'{V}/check', pid], cwd=V, capture_output=True, text=True)
keys = []
for line in r.stdout.splitlines():
    m = re.match(r'\s+key=(\S+) cases=(\d+): (.*)$', line)
    if m:
        keys.append((m.group(1), int(m.group(2)), m.group(3)))
print(r.stdout.splitlines()[-1] if r.stdout else r.stderr[-500:])
for k, n, w in keys:
    print(f'{k}  [{n}]  {w[:160]}')
if '--write' in sys.argv and keys:
    kf = json.load(open(f'{V}/known_findings.json'))
    have = {e['key'] for e in kf['findings']}
    for k, n, w in keys:
        if k not in have:
            kf['findings'].append({'property': pid, 'key': k, 'status': 'open', 'what': w[:400]})
    json.dump(kf, open(f'{V}/known_findings.json', 'w'), indent=1)
