#!/venv/bin/python
"""tools/seeded.py <property> <dir with patch.diff [demo.py meta.json]> [--tier quick] [--keep NAME]

Confirms a seeded fault in a scratch worktree outside /repo and /verif (patch applies, demo passes
without and fails with it), runs ./check <property> against the patched copy via VERIF_REPO, prints
the verdict, removes the worktree, and with --keep stores patch/demo/meta under /verif/seeded/NAME/.
"""
import json, os, shutil, subprocess, sys, tempfile, time

VERIF = os.path.dirname(os.path.dirname(os.path.abspath(__file__)))
SO = 'src/rsatoolbox/cengine/similarity.cpython-312-x86_64-linux-gnu.so'


def sh(cmd, **kw):
    return subprocess.run(cmd, shell=True, capture_output=True, text=True, **kw)


def main():
    pid, mdir = sys.argv[1], os.path.abspath(sys.argv[2])
    tier = sys.argv[sys.argv.index('--tier') + 1] if '--tier' in sys.argv else 'quick'
    keep = sys.argv[sys.argv.index('--keep') + 1] if '--keep' in sys.argv else None
    checks = sys.argv[sys.argv.index('--checks') + 1].split(',') if '--checks' in sys.argv else [pid]
    wt = tempfile.mkdtemp(prefix='seeded_wt_')
    os.rmdir(wt)
    out = {'property': pid, 'source': mdir}
    try:
        r = sh(f'git -C /repo worktree add --detach {wt} HEAD')
        assert r.returncode == 0, r.stderr
        shutil.copy(f'/repo/{SO}', f'{wt}/{SO}')
        shutil.copy('/repo/src/rsatoolbox/cengine/similarity.c', f'{wt}/src/rsatoolbox/cengine/similarity.c')
        env = dict(os.environ, PYTHONPATH=f'{wt}/src')
        demo = os.path.join(mdir, 'demo.py')
        if os.path.exists(demo):
            r0 = subprocess.run(['/venv/bin/python', demo], cwd=wt, env=env, capture_output=True, text=True)
            out['demo_clean_exit'] = r0.returncode
        r = sh(f'git -C {wt} apply {mdir}/patch.diff')
        out['patch_applies'] = r.returncode == 0
        if r.returncode != 0:
            out['apply_error'] = r.stderr[-500:]
        else:
            if os.path.exists(demo):
                r1 = subprocess.run(['/venv/bin/python', demo], cwd=wt, env=env, capture_output=True, text=True)
                out['demo_patched_exit'] = r1.returncode
                out['demo_patched_out'] = (r1.stdout + r1.stderr)[-400:]
            for c in checks:
                t0 = time.time()
                rc = subprocess.run([f'{VERIF}/check', c, '--tier', tier], cwd=VERIF,
                                    env=dict(os.environ, VERIF_REPO=wt, VERIF_EVIDENCE_DIR=wt + '/_evidence'),
                                    capture_output=True, text=True)   # evidence of a run against a patched copy is not evidence
                lines = [l for l in rc.stdout.splitlines() if l.startswith(('VIOLATION', '  key=', 'MACHINERY', 'KNOWN'))]
                lines.sort(key=lambda l: l.startswith('KNOWN'))   # verdict lines first
                out[f'check_{c}'] = {'exit': rc.returncode, 'wall_s': round(time.time() - t0), 'lines': lines[:12]}
    finally:
        sh(f'git -C /repo worktree remove --force {wt}')
        shutil.rmtree(wt, ignore_errors=True)
    print(json.dumps(out, indent=1))
    if keep:
        d = os.path.join(VERIF, 'seeded', keep)
        os.makedirs(d, exist_ok=True)
        for f in ('patch.diff', 'demo.py', 'meta.json'):
            if os.path.exists(os.path.join(mdir, f)) and os.path.abspath(mdir) != os.path.abspath(d):
                shutil.copy(os.path.join(mdir, f), os.path.join(d, f))
        meta = {}
        if os.path.exists(os.path.join(d, 'meta.json')):
            try:
                meta = json.load(open(os.path.join(d, 'meta.json')))
            except Exception:
                meta = {}
        meta['confirmed'] = {k: v for k, v in out.items() if k != 'source'}
        meta['ran'] = f'tools/seeded.py {pid} <dir> --tier {tier} --checks {",".join(checks)}'
        json.dump(meta, open(os.path.join(d, 'meta.json'), 'w'), indent=1)


if __name__ == '__main__':
    main()
