#!/venv/bin/python
"""Regenerate /verif/MANIFEST.json from the table below and validate it against the schema."""
import json
import os
import subprocess
import sys

HERE = os.path.dirname(os.path.dirname(os.path.abspath(__file__)))

# id -> (technique, level text, level note, design ref)  -- only properties with a working check
CLAIMED = {
    'C10': ('TLA+ heap model RdmsStore.tla; TLC enumerates all operation histories to a depth and checks '
            'Assoc/Shape/Frame; every behaviour replayed into real RDMs objects; recorded histories '
            'validated by Trace_RdmsStore.tla',
            'TLC explores every history of the 19 container operations up to depth 2 (full argument domains) '
            'and 3 (trimmed), checking value<->(RDM, label pair) association, NaN placement, shape and frame '
            'invariants in every state; each emitted behaviour is stepped through the real library and all live '
            'objects are compared field by field after every step; random long histories recorded from the real '
            'objects are accepted only if Trace_RdmsStore can explain every post-state.',
            'Bounded: 3 RDMs x 3-4 conditions, heap of 3 objects, caps of 4 rows/patterns; trusts the projection in '
            'harness/rdmstore.py and TLC.', '4/C10'),
}

CLAIMED['C09'] = (
    'TLA+ actions boot_rdm/boot_pattern/boot_both of RdmsStore.tla with the random draw as action argument; TLC '
    'enumerates every draw outcome; replay with the draw forced into numpy.random.randint; observed-draw traces '
    'validated by Trace_RdmsStore.tla; 6-sigma frequency test for uniformity',
    'Every outcome of the with-replacement draw for 2-4 groups on either axis and every grouping descriptor (unique, '
    'duplicated, int/str, list/array) is enumerated by TLC, alone and combined with structural operations; Assoc, Shape '
    'and BootFaithful (whole groups, drawn multiplicity, as many draws as groups) hold in every state; each behaviour is '
    'replayed into the real bootstrap functions with the draw forced and sample, returned index arrays and the order '
    'of a prediction resampled with them are compared; bootstraps under real seeds are recorded at numpy.random.randint '
    'and must be explained by the same actions.',
    'Bounded (3 RDMs x 3-4 conditions). Uniformity (clause f) is probabilistic and not expressible in TLA+: TLC establishes '
    'the support, a 6-sigma frequency test the rest. Trusts harness/rdmstore.py projection.', '4/C09')

CLAIMED['C05'] = (
    'TLA+ module CvSets.tla over RdmsStore.tla: every (source, generator, descriptors, k, shuffle outcome) case with the '
    'clauses as TLC invariants; replay with forced numpy.random.shuffle; perturbation replay through crossval with '
    'recording / frozen fitters for the no-leak clauses',
    'TLC enumerates every case of the eight fold generators over small objects (incl. bootstrap copies and duplicate '
    'descriptor groups, every shuffle outcome for <= 3-4 groups) and checks Disjoint, WholeGroups, Exhaustive, Advertised '
    'and NoLeak on the folds the specification builds with the container operations; every case is replayed into the '
    'real generator with the shuffles forced and every handed-out object and index list is compared; for the leakage '
    'clauses the same fold structures drive crossval: entries outside a fold\'s training object must leave its fitted '
    'parameters bit-identical, entries outside its test object must leave its score bit-identical at fixed parameters.',
    'Bounded (3-4 RDMs x 3-6 conditions); leakage judged by bit-identity under perturbation with fit_regress, fit_select, '
    'fit_interpolate, fit_mock; trusts harness/rdmstore.py projection.', '4/C05')

CLAIMED['C12'] = (
    'TLA+ heap model Alias.tla (Produce / MutateResult / MutateSource, Frame as action property); catalogue of public '
    'callables by introspection handed to TLC as JSON; TLC enumerates every applicable (producer, mutator, side, target) '
    'schedule; fingerprint histories of the executed schedules validated by Trace_Alias.tla',
    'TLC enumerates all schedules over the discovered catalogue (about 160 of 195 public callables can be driven by the '
    'argument factories; the rest is listed as uncovered) and checks Frame on the model; every schedule is executed on '
    'real objects from a fresh world and the sha-fingerprints of ALL tracked objects and result components before, '
    'after the call and after the in-place operation / array write are validated by the trace specification: a call may '
    'change nothing it was given, a mutation may change only its own target.',
    'One argument tuple per callable per seed (thorough: 3 seeds); fingerprints exclude library-managed index entries; '
    'accessors documented to expose internal storage are exempt from array-write independence; sharing among the '
    'components of one result is not judged.', '4/C12')

CLAIMED['C14'] = (
    'TLA+ definitional model NoiseCov.tla (Resid, CrossProd, Dof, Full as exact rationals; shrinkage by relation) with '
    'theorems as TLC invariants; exact test vectors replayed into cov_/prec_from_*; recorded calls recomputed by Trace_NoiseCov.tla',
    'TLC enumerates every design (label vector, balanced or not, every row order), small integer data, dof option and input form '
    'on the exhaustive grid plus seeded random larger designs, checks row-order invariance, measurement-based = unbalanced on '
    'balanced designs, list = element-wise, PSD and the convex-combination relations on the definitions, and emits each state with '
    'its exact residual covariance; every vector is replayed through the six public estimators (exact for full/diag, one-lambda '
    'relation + symmetry + eigenvalues for the shrinkage methods, precision times covariance = I, inputs unmodified); calls recorded '
    'on larger random designs are validated by the trace specification recomputing cross-product and dof in TLC.',
    'Bounded grids (<= 4 conditions x 4 repetitions x 4 channels); shrinkage intensity formulae are not pinned (the property states '
    'relations only); numpy.linalg for eigenvalues and inverses.', '4/C14 and notes/C14.md')
CLAIMED['C20'] = (
    'TLA+ model Importers.tla (BIDS Parse/Format over integer atoms, look-up frame rule, Meadows name grammar and label '
    'permutation, exact SPM projection, design-matrix and epochs post-conditions) checked by TLC; vectors replayed into '
    'the importers; recorded calls recomputed by Trace_Importers.tla',
    'TLC checks Parse(Format(e)) = e and Format(Parse(p)) = p over all 3^10 presence/value combinations of the ten BIDS entities, '
    'the frame rule of every look-up, the Meadows name grammar and the exact label permutation, and the SPM filter laws on integer '
    'orthonormal bases; every emitted vector is replayed into BidsFile/BidsLayout look-ups (also through real directory trees), '
    'load_rdms on generated .mat/.json files, dataset_from_epochs, make_design_matrix and SpmGlm.spm_filter; calls recorded on '
    'random larger inputs are validated by the trace specification.',
    'HRF shape is not specified by the property: design matrices are checked structurally (columns, flags, range, mean, dof) at 1e-9; '
    'file-name shapes the code documents as unsupported are counted, not demanded.', '4/C20 and notes/C20.md')

CLAIMED['C03'] = (
    'TLA+ definitional model Compare.tla: exact statistics (dot products, centred sums, doubled ranks, concordance counts, '
    'integer V(sigma)) with symmetry / range / permutation / pairing theorems checked by TLC; vectors replayed into compare() '
    'and every compare_*; recorded calls recomputed by Trace_Compare.tla in multi-limb integer arithmetic',
    'TLC enumerates all pairs of small integer RDM vectors (3 conditions exhaustively, 4 conditions on a grid), stacks, methods and '
    'sigma_k catalogue, checks the spec-level theorems and the action properties (simultaneous condition permutation, argument '
    'swap = transposition) and emits exact statistics; tau-a and rho-a are compared exactly, the other measures through their '
    'sufficient statistics (last irrational step and V^-1 in a kernel that is cross-checked against the TLA+ values); Bures values '
    'are exact for planar point configurations; calls recorded on larger random stacks are accepted only if value^2*S_aa*S_bb = S_ab^2 '
    'within the rounding bound, evaluated by TLC.',
    'Bounded integer grids; float tier against the kernel; conjugate-gradient tolerance 5e-5 for the whitened measures; '
    'scipy.linalg.sqrtm only for non-planar Bures configurations.', '4/C03 and notes/C03.md')
CLAIMED['C11'] = (
    'TLA+ heap model DataStore.tla (Dataset / TemporalDataset objects with token cells as exact rationals, one action per operation, '
    'Enabled/Apply); TLC enumerates all histories to a depth and checks CellAssoc / DescAttached / StepProps; behaviours replayed '
    'into real objects; recorded histories validated by Trace_DataStore.tla',
    'TLC explores every history of the dataset operations (split/subset by observation, channel, time; sort_by; merge; odd-even '
    'splits; bin_time; time-as-observations/channels; DataFrame and dict round trips; copy; average-by) to depth 2 with full and '
    'depth 3 with trimmed argument domains over all shapes incl. every size-1 dimension and an 18-row configuration for sort '
    'stability, checking cell association, attached descriptors, partition / multiset / order / stability / bin-mean / conversion '
    'properties on every transition; every behaviour is stepped through the real library with all live objects compared; random '
    'recorded histories must be explained by the same operators.',
    'Bounded shapes (<= 18 x 3 x 3); operations the documentation leaves open (listed in notes/C11.md) are excluded by Enabled and '
    'probed once per run as unsupported; save/load is exercised by C16.', '4/C11 and notes/C11.md')
CLAIMED['C18'] = (
    'TLA+ model Simulation.tla (exact integer loop model RDM -> data -> calc_rdm, design balance, draw protocol, noise relation) '
    'checked by TLC; configurations replayed into make_design / make_dataset / calc_rdm with forced numpy.random.uniform',
    'TLC enumerates embeddable model RDMs from integer point configurations (2-5 conditions), channel counts, partitions, simulations, '
    'signal strengths, design forms and flags with the exact expected RDM, design vectors and the protocol of random draws (one '
    'signal draw when the signal is reused, one per simulation otherwise); every configuration is replayed with the draws forced '
    'and RDM (rtol 1e-5 of the largest entry), descriptors, draw protocol and the noise-scaling relation are compared.',
    'Draws whose Gram matrix is nearly singular (pivot < 1e-3) are re-drawn / counted, because the code clips pivots at 1e-15; '
    'cases the property excludes (n_channel < n_cond, signal covariance) are negative controls only.', '4/C18 and notes/C18.md')
CLAIMED['C19'] = (
    'TLA+ model Searchlight.tla: integer sphere geometry, ravel order, centre rule, chunk partition, and a concurrent '
    'Dispatch/Complete/Collect model whose interleavings TLC explores; all masks of small volumes replayed into the searchlight '
    'functions; recorded calls recomputed by Trace_Searchlight.tla',
    'TLC enumerates ALL masks of the 2x2x2 and 3x2x2 volumes x radii x thresholds with exact expected centres and neighbour lists, '
    'checks the chunking partition and - in every interleaving of 3 workers x 4 tasks - that results are collected in centre order; '
    'every case is replayed into get_volume_searchlight; per-centre RDMs (token data) are compared with direct calc_rdm below and '
    'above the 1000-centre chunking limit; evaluate_models_searchlight is compared across n_jobs; random larger masks are recorded '
    'and validated by the trace specification.',
    'Worker schedules of joblib cannot be forced: the interleaving argument rests on the model, the implementation is compared across '
    'n_jobs; masks without any accepted centre raise in the library and are counted as unsupported.', '4/C19 and notes/C19.md')

CLAIMED['C04'] = (
    'TLA+ protocol model EvalProtocol.tla (EXTENDS CvSets, RdmsStore): Draw / TooSmall / MakeSets / Fit / Predict / Compare / Ceiling / '
    'Store / Aggregate with a symbolic evaluation table; TLC enumerates draw and shuffle outcomes; behaviours replayed with forced '
    'randint / shuffle and recording fitters; executions under real seeds validated by Trace_EvalProtocol.tla',
    'All eight evaluation routines are one protocol over labelled token objects: TLC explores every draw outcome for small sizes and '
    'checks PredMatchesSample, SampleIsDraw, FitBeforeUse, ThetaFromOwnFold, NaNIffTooSmall, CeilingSameSample, DofRule, OkMask and '
    'AllCellsStoredOnce; each behaviour is replayed into the real routine with the random outcomes forced, and every stored cell, '
    'ceiling, dof and the variances (recomputed from the stored evaluations by definition) are compared; executions under real seeds '
    'are recorded at randint / shuffle / fitters / compare and must be explained event by event by the protocol actions, with '
    '"stored = mean of the values of that compare event" checked in integer arithmetic; same seed => bit-identical results.',
    'Bounded (N = 1-2 samples in the model, 3 RDM groups x 3-4 condition groups; larger in recorded runs); similarity values '
    'themselves come from rsatoolbox.rdm.compare (decided by C03); boot_testset routines are not in the property\'s list.',
    '4/C04 and notes/C04.md')
CLAIMED['C06'] = (
    'TLA+ definitional model Variances.tla in exact rationals (contrasts of the covariance, n/(n-1) rule, dual-bootstrap combination '
    'and clamps, NaN-aware means, permutation equivariance) checked by TLC; vectors replayed into extract_variances / Result '
    'accessors / tests; recorded calls recomputed by Trace_Variances.tla',
    'TLC enumerates integer covariances (scalar, vector, matrix, 3-stack; with and without ceiling rows; all 46 656 3x3 matrices at the '
    'thorough tier), n_rdm / n_pattern options and evaluation arrays with NaN marks, checks the dual-bootstrap bounds, non-negativity '
    'under PSD minors and model-permutation equivariance on the definitions and emits exact expected values; every vector is replayed '
    '(relative 1e-12), p-values are checked for range, symmetry, unit diagonal, monotonicity along TLC-enumerated shift chains and '
    'against scipy.stats on eval_fixed outputs; numpy-generated larger inputs are recorded and recomputed by the trace specification.',
    'The t distribution and the Wilcoxon test come from scipy.stats; bootstrap noise tests on synthetic arrays with fold axes are not '
    'demanded (see DESIGN section 9).', '4/C06 and notes/C06.md')
CLAIMED['C13'] = (
    'TLA+ model MissingData.tla (instantiates Compare.tla): mask classes, Delete, Measure(Masked) = Measure(Deleted) and the V '
    'sub-block rule as theorems, Misaligned => Error, exact weighted Mean, rescale post-conditions; vectors replayed into compare / '
    'pool_rdm / fitters / RDMs.mean / rescale; recorded calls validated by Trace_MissingData.tla',
    'TLC classifies all masks over 3-6 entries x 1-3 RDMs (none, common, differing between or within stacks; also masks produced by '
    'pattern bootstrap and from_partials), checks the deletion theorems on the exact statistics and emits vectors; every vector is '
    'replayed as a metamorphic pair (masked call versus the same public function on entry-deleted arrays) and against an independent '
    'kernel; differing masks must raise; RDMs.mean is compared with exact rationals for per-RDM and per-entry weights; rescale is judged '
    'by its post-conditions.', 'Bures / Riemann measures excluded (a deleted entry has no meaning for a function of the whole kernel '
    'matrix); bounded grids.', '4/C13 and notes/C13.md')
CLAIMED['C15'] = (
    'TLA+ definitional model Unbalanced.tla (admissible observation pairs, per-pair kernels over shared valid channels, both weightings, '
    'rdm = self + self - 2 cross in exact rationals) with coincidence theorems checked by TLC; vectors replayed into '
    'calc_rdm_unbalanced / calc_one_similarity in all dtype and memory-layout flavours; recorded designs recomputed by Trace_Unbalanced.tla',
    'TLC enumerates designs (2-5 observations, unbalanced repetitions, every NaN channel pattern, six methods, two weightings, optional '
    'folds and precisions), proves on the definitions where the unbalanced estimator must coincide with calc_rdm, that an all-NaN channel '
    'equals a deleted channel and that pairs without a valid product are NaN, and emits exact expected RDMs; every vector is replayed '
    '(rtol 1e-10) in float64/float32/int64/int32, C / Fortran / sliced layouts and compared with calc_rdm where theory says so.',
    'The compiled engine cannot be rebuilt here (no Cython): the check compares similarity.pyx with the source embedded in similarity.c '
    'and exits 2 ("compiled engine stale") if they differ; three engine defects are open known findings.', '4/C15 and notes/C15.md')
CLAIMED['C16'] = (
    'TLA+ file-system state machine Persist.tla (Save in the code\'s stages to_dict / remove_file / guard / writer, Load, Close over '
    '2 paths, 2 formats, path / fresh handle / kept handle) with LoadReturnsLastSaved, RefusedLeavesFsUnchanged, '
    'OverwriteIsReplaceNotMerge, SaveLeavesObjectUnchanged checked by TLC (and five deliberately broken designs that TLC must reject); '
    'histories replayed on real objects; recorded histories validated by Trace_Persist.tla',
    'TLC enumerates every save/load history to depth 3-4 and checks the replace-or-refuse properties; each history is replayed in a '
    'scratch directory with outcome, file key tree, other path\'s bytes, loaded object (field-wise oracle and == where defined) and '
    'fingerprints of all in-memory objects checked after every step; a catalogue of 249 objects (all eight kinds x descriptor value '
    'types incl. non-ASCII, NaN, arrays, matrices, None measure) is round-tripped through both formats and three target modes; objects '
    'after random structural histories (RdmsStore / Dataset operations) are round-tripped and Result test outputs compared.',
    'Equality oracle is field-wise with numpy.array_equal(equal_nan=True); pickle overwrite semantics taken from the code; operations '
    'continuing on a reloaded copy are counted, not demanded.', '4/C16 and notes/C16.md')
CLAIMED['C17'] = (
    'TLA+ model Transform.tla (exact rationals for rank, positive, sqrt relation, minmax, numpy-quantile geo-topological map, '
    'Floyd-Warshall geodesic) with nine theorem invariants, plus MonoInvariant / LinInvariant action properties in Compare.tla over ALL '
    'strictly increasing maps of the value set; vectors replayed into every *_transform and compare before/after',
    'TLC enumerates vectors of length 3 and 6 over -2..3 with ties and NaN marks, quantile pairs and rank methods with exact expected '
    'results, and every strictly increasing map, positive scaling and affine map of the finite value set for the invariance clause; '
    'every vector is replayed through the public transforms (values, descriptors carried over, measure name) and through compare on '
    'transformed inputs; recorded sessions compare(A,B); compare(T(A),B) are validated by the trace specification.',
    'NaN entries only where the transform supports them; constant RDMs excluded for minmax/geodesic; quantiles of the geo-topological '
    'transform are taken over the whole stack as the code does (the weaker reading).', '4/C17 and notes/C17.md')

CLAIMED['C07'] = (
    'TLA+ protocol model NoiseCeiling.tla (EXTENDS CvSets): Pool as normalise-then-NaN-mean with exact statistics, '
    'PoolAll / LeaveOut / PoolTrain / Score carrying dependency sets, and an adversary move (candidate RDM from an integer grid, '
    'every weak ordering for rho-a, rescalings / affine maps); TLC enumerates (data stack, candidate) pairs; replay with the '
    'implementation scoring both sides; recorded calls validated by Trace_NoiseCeiling.tla',
    'TLC checks NcNoLeak (the prediction for a group never depends on that group), NcDepsExact (cross-validation: training RDMs at '
    'the test conditions; upper bound: all RDMs at the test conditions), RhoAOptimal and the invariance under per-RDM rescaling / '
    'affine maps exactly, and enumerates every grid candidate for stacks of 2-3 RDMs incl. common missing-entry masks and groupings; '
    'for cosine and correlation "no candidate beats the upper bound" and "lower <= upper" are decided by the implementation\'s compare '
    'on every enumerated pair plus data RDMs, eps-perturbations and random candidates; what pool_rdm / compare actually received is '
    'checked by token inspection and perturbation replay.',
    'Irrational inequalities are evaluated in floating point (1e-9); stacks whose normalised rows cancel exactly are excluded from '
    'value oracles; bounded grids.', '4/C07 and notes/C07.md')
CLAIMED['C08'] = (
    'TLA+ model Fitting.tla (EXTENDS RdmsStore): exact linear Predict with additivity / homogeneity theorems, Restrict = '
    'subsample semantics with multiplicity, dependency sets, and an adversary over integer weight grids, candidate indices and '
    'segment mixtures; exact optimal directions (adj(G) b) for one training RDM; replay with the implementation scoring fit and '
    'competitors; recorded fits validated by Trace_Fitting.tla',
    'TLC enumerates basis sets (2-3 RDMs over 3-4 conditions, full-rank catalogue), training stacks, pattern_idx selections with and '
    'without repeats and every grid competitor, decides optimality exactly for K = 2 and emits the rest; every fitted parameter '
    'vector must score at least as high as every competitor (grid, local perturbations, random) under the implementation\'s compare, '
    'satisfy its constraints (theta >= 0, unit norm), depend only on the selected conditions (token inspection + perturbation '
    'replay), and predict / predict_rdm / model_from_dict must agree exactly on the integer grid.',
    'Tolerances 1e-7 closed forms, 1e-5 whitened (scipy cg), 1e-4 interpolation, 1e-3 BFGS on a fixed sample; three open known '
    'findings.', '4/C08 and notes/C08.md')

CLAIMED['C01'] = (
    'TLA+ staged model CalcRdm.tla (Average / Kernel / Build / SortAlpha / ListBranch / Movie over exact rationals) with '
    'Symmetric, ZeroIffEqualMeans, LabelOrderSorted, EntryBelongsToLabels, ListAligned, MovieIsStack, PermInvariant checked by '
    'TLC; exact vectors replayed into calc_rdm / calc_rdm_movie in all flavours; recorded calls recomputed by Trace_CalcRdm.tla',
    'TLC enumerates every labelling of the observations (balanced or not, any order), integer data grids, the four methods with '
    'integer SPD precisions and priors, remove_mean, single / list / movie modes, and emits the exact RDM keyed by label; every '
    'vector is replayed through the public API in descriptor-container, label-type, dtype (incl. narrow ints), memory-layout and '
    'single-vs-list flavours (exact for euclidean / mahalanobis, sufficient statistics + kernel for correlation and Poisson), a '
    'float tier runs real-valued data per enumerated design, and random larger integer inputs are recorded and recomputed in TLC.',
    'Bounded grids (<= 6 observations x 3 channels x 4 conditions); log / sqrt last steps in a kernel cross-checked against the '
    'TLA+ values on every run.', '4/C01 and notes/C01.md')
CLAIMED['C02'] = (
    'TLA+ staged model CalcRdm.tla, cv mode (DefaultFolds / FoldMeans / PairProducts / AverageFoldPairs with a ghost bag of '
    'contributing fold pairs): NoSelfPairs, AllFoldsUsed, EqualWeights, CoefWithinFoldZero, CvMatchesLeaveOneOut and invariance '
    'under row permutation / fold relabelling / channel permutation checked by TLC; exact vectors replayed; coefficient '
    'extraction on the bilinear estimator; recorded calls recomputed by Trace_CalcRdm.tla',
    'TLC enumerates fold-balanced designs (2-3 conditions x 2-3 folds x 1-2 repetitions, all row orders, int/str labels, explicit or '
    'default folds, identity / matrix / per-fold precisions) with the exact crossnobis and poisson_cv values; every vector is '
    'replayed; on every enumerated design the coefficient of each product of two observations is MEASURED from the implementation '
    '(d(e_o+e_p) - d(e_o) - d(e_p)) and compared with the coefficient matrix implied by the specification, so a within-fold '
    'product with non-zero weight is a violation whatever the data.', 'Bounded grids; per-fold precisions diagonal in the exact '
    'tier (general SPD lists in the float tier).', '4/C02 and notes/C02.md')

# what the growth rounds added on top of the first delivery (appended to the level text)
GROWN = {
    'C01': 'Growth: calc_rdm_movie(unbalanced=True), cross-validated movies, cv / unbalanced lists (CalcRdm.tla instantiates '
           'Unbalanced.tla; theorem UnbalancedMatchesBalanced), time_descriptor= and subset_time flavours, repeated calls on one '
           'dataset object.',
    'C02': 'Growth: cross-validated partial RDMs per dataset / time bin (PartialCv), default and explicit folds, per-fold '
           'precisions in movies, list alignment through from_partials.',
    'C04': 'Growth: the three bootstrap_testset routines (test set = complement of the draw, perturbation replay for '
           'non-dependence), eval_fixed on resampled stacks (dof).',
    'C06': 'Growth: stacks with duplicated index values, 3-stack shape reporting, NaN samples in stored noise ceilings through '
           'test_noise and test_all.',
    'C07': 'Growth: both pool_rdm implementations against one Pool definition for eleven methods (theorems PoolKindsAgree, '
           'V3Adjugate), unequal cross-validation folds, extreme rescaling factors (1e-26 .. 1e+12).',
    'C08': 'Growth: ModelFamily (FamilyBijection), model bookkeeping facts for every class, fit sessions on one model object with '
           'the ModelFrame action property, index relabelling (RelabelFree), ridge / positivity post-conditions, work-bounded '
           'termination of the non-negative solver on scaled bases, fit_optimize_positive with sigma_k.',
    'C11': 'Growth: bin_time with several time descriptors, isin membership (interleaved / skipping / overlapping bins), bin '
           'containers, average_dataset, __eq__ round trips.',
    'C12': 'Growth: argument factories for every discovered callable: 190 of 190 value-returning callables exercised.',
    'C13': 'Growth: from_partials with per-partial pattern order (token values name their pair), rescale in extreme units.',
    'C14': 'Growth: channel-scaled data with an equilibrated inverse oracle, int64 / int32 / float32 inputs.',
    'C16': 'Growth: pickle streams with the handle position as state (StreamReadsInOrder), single-model Results (0-d variances).',
    'C18': 'Growth: encoding designs (EncContract), trial covariance, make_signal driven directly with exact G, all model classes.',
    'C19': 'Growth: all masks of 3x3x2 and 4x2x2, irrational radii decided on squares, ten mask topologies, random-walk masks '
           '(WalkMonotone), evaluate_models_searchlight on derived (subset / permuted) objects in every interleaving.',
    'C20': 'Growth: exact HRF design matrices on the volume grid (integer kernel table, HrfLaws), derivative data sets on disk, '
           'rdms_to_df, read_epochs on real .fif files, duplicate Meadows base names, negative onsets.',
}

NOT_YET = {
}


def main():
    props = [json.loads(l) for l in open(os.path.join(HERE, 'properties.jsonl'))]
    checks = []
    na = []
    for p in props:
        pid = p['id']
        if pid in CLAIMED:
            tech, text, note, ref = CLAIMED[pid]
            if pid in GROWN:
                text = text + ' ' + GROWN[pid]
            checks.append({
                'property_id': pid,
                'quick_cmd': f'./check {pid} --tier quick',
                'thorough_cmd': f'./check {pid} --tier thorough',
                'evidence_file': f'/verif/evidence/{pid}.json',
                'replay_cmd_template': f'./check {pid} --replay {{path}}',
                'engine': 'tlc+replay',
                'level_claimed': {'category': 'model_checking', 'text': text, 'design_ref': f'DESIGN.md section {ref}'},
                'level_note': note,
                'technique': tech,
            })
        else:
            na.append({'property_id': pid,
                       'reason': NOT_YET.get(pid, 'check not built yet in this round; the TLA+ plan for it is in DESIGN.md '
                                                  'section 4 - no claim is made until the specification and its binding exist')})
    man = {
        'version': 1,
        'setup_cmd': 'true',
        'hooks': {'guard': 'RSATOOLBOX_VERIF', 'enable': 'no source hooks: checks observe public calls and wrap module-level '
                  'names at run time; ./check sets RSATOOLBOX_VERIF=1 for uniformity',
                  'baseline_off_cmd': 'cd /repo && /venv/bin/python -m pytest -ra -q -p no:cacheprovider --timeout=900 '
                                      '--continue-on-collection-errors',
                  'source_commits': [], 'add_only': True},
        'engines': [{'name': 'tlc+replay', 'path': '/verif/check',
                     'serves_properties': sorted(CLAIMED),
                     'kind_free_text': 'explicit TLA+ specifications in /verif/specs checked by TLC 1.8; behaviours and test '
                                       'vectors emitted by TLC are replayed into rsatoolbox (spec->impl) and histories recorded '
                                       'from rsatoolbox are validated by trace specifications (impl->spec)'}],
        'checks': checks,
        'not_applicable': na,
        'notes': 'See DESIGN.md. known_findings.json lists recorded findings and fixed defects. Beyond the listed properties the '
                 'specification also covers the decision layer of rsatoolbox.vis (specs/PlotDecisions.tla, ./check X01, evidence '
                 'in evidence_extra/; DESIGN.md section 5.1) and of Result.summary() (specs/ResultSummary.tla, ./check X02) - not claimed '
                 'checks because they decide none of the listed properties.',
    }
    out = os.path.join(HERE, 'MANIFEST.json')
    json.dump(man, open(out, 'w'), indent=1)
    subprocess.run(['python3-vt', '-c', 'import json,jsonschema,sys; jsonschema.validate(json.load(open(sys.argv[1])), '
                    'json.load(open("/root/.vp/MANIFEST.schema.json")))', out], check=True)
    print(f'MANIFEST.json: {len(checks)} checks, {len(na)} not_applicable; valid')


if __name__ == '__main__':
    main()
