#!/venv/bin/python
"""Regenerate the table of seeded faults in DESIGN.md (between the SEEDED-TABLE markers) from seeded/*/meta.json."""
import glob, json, os, re
VERIF = os.path.dirname(os.path.dirname(os.path.abspath(__file__)))
rows = []
for d in sorted(glob.glob(os.path.join(VERIF, 'seeded', '*'))):
    mp = os.path.join(d, 'meta.json')
    if not os.path.exists(mp):
        continue
    m = json.load(open(mp))
    c = m.get('confirmed', {})
    caught = []
    for k, v in c.items():
        if k.startswith('check_'):
            keys = sorted({re.sub(r' cases=.*', '', l.strip().replace('key=', '')) for l in v.get('lines', []) if 'key=' in l})
            verdict = {0: 'missed', 1: 'caught', 2: 'machinery error'}.get(v.get('exit'), '?')
            caught.append(f"{k[6:]}: {verdict}" + (f" ({'; '.join(keys[:3])}{' ...' if len(keys) > 3 else ''})" if keys else ''))
    demo = f"{c.get('demo_clean_exit', '?')}/{c.get('demo_patched_exit', '?')}"
    if m.get('note'):
        caught.append('NOTE: ' + m['note'][:260])
    rows.append(f"| {os.path.basename(d)} | {m.get('summary', m.get('clause', ''))[:150].replace('|', '/')} | "
                f"{str(m.get('needs', ''))[:170].replace('|', '/')} | {demo} | {'<br>'.join(caught)} |")
table = ('| id | change | needs to manifest | demo exit clean/patched | checks |\n|---|---|---|---|---|\n' + '\n'.join(rows))
p = os.path.join(VERIF, 'DESIGN.md')
s = open(p).read()
if '<!-- SEEDED-TABLE -->' not in s:
    s += '\n<!-- SEEDED-TABLE -->\n<!-- /SEEDED-TABLE -->\n'
s = re.sub(r'<!-- SEEDED-TABLE -->.*<!-- /SEEDED-TABLE -->', '<!-- SEEDED-TABLE -->\n' + table.replace('\\', '\\\\') + '\n<!-- /SEEDED-TABLE -->', s, flags=re.S)
open(p, 'w').write(s)
print(len(rows), 'seeded faults in table')
