#!/bin/bash
# tools/runall.sh [seed] [tier]: run every registered check, three at a time; summary in /tmp/w/runall_<seed>.log
seed=${1:-0}; tier=${2:-quick}; out=/tmp/w/runall_${seed}_${tier}.log; : > $out
cd /verif
run() { p=$1; s=$(date +%s); VERIF_SEED=$seed ./check $p --tier $tier > /tmp/w/runall_${p}_${seed}.out 2>&1; rc=$?; e=$(date +%s); echo "$p exit=$rc wall=$((e-s))s $(grep -c '^VIOLATION' /tmp/w/runall_${p}_${seed}.out) violations, $(grep -c '^KNOWN-FINDING' /tmp/w/runall_${p}_${seed}.out) known" >> $out; }
(for p in C01 C04 C07 C10 C13 C16 C19; do run $p; done) &
(for p in C02 C05 C08 C11 C14 C17 C20; do run $p; done) &
(for p in C03 C06 C09 C12 C15 C18; do run $p; done) &
wait; sort $out
